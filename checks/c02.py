"""C02 - a tensor's rank bookkeeping always mirrors its fibertree.

Monitor: the RC invariant (observe.RC: rank i lists exactly the fibers found at depth i of a raw walk
from the root - each once, none stale, none missing -, owners, rank chain, single root) evaluated at
every quiescent point of a random history on tensors from every constructor, for the tensor under
mutation *and* the tensors it was derived from; derived per-rank quantities (Format.getRank footprint,
clearStats) are recomputed from the raw walk at the end of each history.
"""
from fibertree import Fiber, Tensor

from fvmon import history
from fvmon.observe import RC, rc_kind

SPEC = {
    "anchors": ["fibertree.core.tensor:Tensor.setRoot", "fibertree.core.tensor:Tensor._addFiber", "fibertree.core.rank:Rank.append", "fibertree.core.rank:Rank.pop", "fibertree.core.fiber:Fiber._instantiateDefault", "fibertree.core.iterators:__lshift__", "fibertree.core.tensor:Tensor.__deepcopy__", "fibertree.core.fiber:Fiber._createDefault"],
    "rule": ("case = tensor of depth 2-4 from one of 13 constructors/transforms (empty, fromFiber (free or already "
             "owned root), fromUncompressed, fromRandom, fromYAMLfile, makePopulated, deepcopy, split, swizzle, "
             "flatten-unflatten, swap) + a random history of 5-30 (quick) / 5-100 (thorough) operations over "
             "{multi-coordinate getPayloadRef, prefix getPayloadRef, getPayload of absent points, nested populate "
             "with leave/assign/recurse/break/raise bodies, dense reference iteration and co-iteration at root and "
             "interior fibers, fiber assignment, clear, read-only co-iteration of interior fibers (| ^ & - == + "
             "uncompress), stale references}.  Non-trivial = at least 3 steps executed and the tensor reached at "
             "least 2 fibers at some quiescent point; distinct = distinct case."),
    "shards": {"quick": 16, "thorough": 16},
    "min_counts": {"quick": {"evaluations": 250, "rc_evals": 8000, "populate_yields": 300, "derived_checks": 200, "early_format_queries": 300}},
    "assumptions": [
        "position assignment / append of raw sub-fibers is not in the alphabet (C02's quantifier lists insertion, populate, dense reference iteration, fiber assignment, clearing)",
        "order of fibers inside a rank list is not compared (each once, none stale, none missing)",
    ],
}


def generate(rng, tier, shard, nshards, mon):
    n = (1600 if tier == "quick" else 14000) // nshards
    lo, hi = (5, 30) if tier == "quick" else (5, 100)
    for _ in range(n):
        init = history.gen_init(rng, want_tensor=True, max_depth=4)
        if init["depth"] < 2 and rng.random() < 0.8:
            init = history.gen_init(rng, want_tensor=True, max_depth=4)
        # clearing / assigning a fiber that has sub-fibers is exercised in a fifth of the histories only (it
        # ends a history on the unchanged tree: known finding, descendants stay listed)
        ops = history.gen_ops(rng, init, rng.randint(lo, hi), history.C02_OPS, interior_removal=rng.random() < 0.2)
        yield {"init": init, "ops": ops}


class _Hooks(history.Hooks):
    def __init__(self, mon):
        self.mon = mon
        self.step_label = "init"
        self.step_op = "init"
        self.maxfibers = 0

    def quiescent(self, label, ctx):
        mon = self.mon
        if label == "init":
            # a footprint model object built (and queried once) before the history: its later answers must describe
            # the tree as it is then
            self.early_fmt = _make_format(ctx.tensor)
            if self.early_fmt is not None:
                try:
                    for r in ctx.tensor.getRankIds():
                        self.early_fmt.getRank(r)
                except BaseException:      # noqa
                    self.early_fmt = None
        if label.startswith("populate"):
            mon.count("populate_yields")
        bad = False
        for which, t in [("subject", ctx.tensor)] + [("source", o) for o in ctx.others]:
            mon.count("rc_evals")
            probs = RC(t)
            if which == "subject":
                self.maxfibers = max(self.maxfibers, sum(len(r.getFibers()) for r in t.ranks))
            if probs:
                kinds = "+".join(sorted({rc_kind(p) for p in probs}))
                where = self.step_op if label != "init" else f"ctor:{ctx.init['ctor']}"
                mon.violation(f"rc:{kinds}:{which}:after:{where}",
                              f"rank bookkeeping of the {which} tensor wrong at quiescent point '{label}' "
                              f"(step {self.step_label}, ctor {ctx.init['ctor']}): " + "; ".join(probs[:3]))
                bad = True
            else:
                mon.count("oracle_evals")
        if bad:
            raise history.StopHistory()

    def before_step(self, i, op, ctx):
        self.step_label = f"#{i} {op['op']}"
        self.step_op = op["op"]

    def rejected(self, label, ctx, exc):
        pass

    def unexpected(self, label, ctx, exc):
        self.mon.count("unexpected_exceptions")
        self.mon.count(f"unexpected:{label}:{type(exc).__name__}")

    def skipped(self, label):
        self.mon.count("steps_skipped")


def _make_format(t):
    from fibertree.model.format import Format
    ids = t.getRankIds()
    if not ids or any(isinstance(i, list) for i in ids):
        return None
    spec = {"rank-order": ids}
    for k, r in enumerate(ids):
        spec[r] = {"format": "C", "rhbits": 3, "fhbits": 5 + k, "cbits": 7, "pbits": 11}
    try:
        return Format(t, spec)
    except BaseException:      # noqa
        return None


def _derived(mon, t, early_fmt=None):
    """Per-rank quantities derived from the rank lists must describe the live tree."""
    from fibertree.model.format import Format
    if RC(t):
        return          # already reported; derived quantities are meaningless
    mon.count("derived_checks")
    ids = t.getRankIds()
    if not ids or any(isinstance(i, list) for i in ids):
        return
    spec = {"rank-order": ids}
    for k, r in enumerate(ids):
        spec[r] = {"format": "C", "rhbits": 3, "fhbits": 5 + k, "cbits": 7, "pbits": 11}
    try:
        fmt = Format(t, spec)
        by_depth = [[] for _ in ids]

        def walk(f, d):
            by_depth[d].append(f)
            for p in f.payloads:
                if isinstance(p, Fiber):
                    walk(p, d + 1)
        walk(t.getRoot(), 0)
        for k, r in enumerate(ids):
            want = 3 + sum(5 + k + 18 * len(f.coords) for f in by_depth[k])
            got = fmt.getRank(r)
            mon.check(got == want, "derived:rank-footprint", f"Format.getRank({r})={got}, raw walk gives {want}")
            if early_fmt is not None:
                mon.count("early_format_queries")
                got = early_fmt.getRank(r)
                mon.check(got == want, "derived:rank-footprint:format-built-before-the-history",
                          f"a Format built before the history answers getRank({r})={got}, the tree now gives {want}")
    except BaseException as e:      # noqa
        mon.count(f"derived:format-raised:{type(e).__name__}")
    # statistics clearing reaches every live fiber
    for fs in by_depth:
        for f in fs:
            f.setSavedPos(0, distance=3)
    t.clearStats()
    left = [f for fs in by_depth for f in fs if f.getSavedPosStats(clear=False) != (0, 0)]
    mon.check(not left, "derived:clearStats", f"clearStats() left {len(left)} reachable fibers with statistics")
    # rank printing lists the live fibers only
    try:
        def nfib(f):
            return 1 + sum(nfib(p) for p in f.payloads if isinstance(p, Fiber))
        for k, rk in enumerate(t.ranks):
            txt = repr(rk)
            want = sum(nfib(f) for f in by_depth[k])
            mon.check(txt.count("Fiber(") == want, "derived:rank-repr",
                      f"repr(rank {k}) shows {txt.count('Fiber(')} fibers (with nested), tree has {want}")
    except BaseException as e:      # noqa
        mon.count(f"derived:repr-raised:{type(e).__name__}")


def run_case(case, mon):
    h = _Hooks(mon)
    ctx = history.run_history(case["init"], case["ops"], h)
    _derived(mon, ctx.tensor, getattr(h, "early_fmt", None))
    for o in ctx.others:
        _derived(mon, o)
    mon.count("steps_executed", len(case["ops"]))
    if len(case["ops"]) >= 3 and h.maxfibers >= 2:
        mon.nontrivial()
    mon.state((case["init"]["ctor"], case["init"]["depth"], tuple(sorted({o["op"] for o in case["ops"]}))))
