"""C20 - encoding a tensor in a compression format loses nothing.

Monitor (all oracles are computed from the case's tree spec and the documented layouts, never from the
codec's own bookkeeping):

  decode   an independent top-down decoder of the per-rank `coords_*` / `payloads_*` arrays
           (U implicit positions, C explicit coordinates, B one mask bit per coordinate of the shape,
           cumulative occupancies = segment ends restarting at 0 in every parent fiber, fibers of a rank in
           depth-first order, every array consumed exactly) must give back the tensor's content;
  scan     every encoded fiber object, scanned with setupSlice/nextInSlice/handleToCoord/handleToPayload
           (/payloadToValue at the leaves) under a stub cache, must present exactly the elements the
           decoder found for that fiber (full scan and scans from a base coordinate); every scan is made twice:
           each handle resolved as soon as nextInSlice produced it, and the handles kept until the scan has ended
           and resolved then (a handle names an element of the fiber, not the current position of the scan);
  lookup   coordToHandle on every encoded C fiber == bisect_left over its stored coordinates (None past the end);
  size     getSize() of every encoded fiber == number of words of its layout (word-count formula below);
  concurrent  the elements a fiber presents do not depend on what other slices are open: the fibers of a rank
           co-iterated (one slice open on each, pulled in turn), the whole encoded tensor walked top-down (a child
           is scanned while the scan of its parent is still open), and the fibers of several encoded tensors
           co-iterated two-finger style must each present exactly the elements of their layout (again with the
           handles resolved at once, and kept until every scan of the schedule has ended);
  reuse    one Codec object encoding a sequence of tensors (same depth; rank ids the same, permuted or different):
           every encoding is decoded and scanned exactly as above under that tensor's own rank ids;
  cache    the cache attached to the encoded fibers models a buffer: what a scan presents does not depend on what the
           cache holds - a fresh one per encoding, ONE cache object serving the fibers of every encoding of a sequence
           (so it already holds what the fibers of the earlier encodings put there, under whatever names they have),
           unbounded or a small bounded LRU.
"""
import bisect
import contextlib
import itertools
import math

from fibertree import Fiber, Tensor  # noqa: F401  (Tensor used through gen)

from fvmon import gen
from fvmon.monitor import jhash

SPEC = {
    "anchors": ["fibertree.codec.tensor_codec:Codec.encode", "fibertree.codec.formats.uncompressed:Uncompressed.encodeFiber", "fibertree.codec.formats.coord_list:CoordinateList.encodeFiber", "fibertree.codec.formats.bitvector:Bitvector.encodeFiber", "fibertree.codec.formats.coord_list:CoordinateList.coordToHandle", "fibertree.codec.formats.compression_format:CompressionFormat.nextInSlice", "fibertree.codec.formats.uncompressed:Uncompressed.getSize", "fibertree.codec.formats.coord_list:CoordinateList.getSize", "fibertree.codec.formats.bitvector:Bitvector.getSize"],
    "rule": ("case = (tensor of depth 1-3 given as a tree spec, declared shape or none, one descriptor over {U,C,B}^depth, "
             "imposed shape or none); the tensor is rebuilt through Tensor.fromFiber / Tensor(rank_ids, shape) and "
             "encoded with Codec(desc, [True]*depth); get_output_dict; encode(-1, root, rank_ids, output, output_tensor, "
             "shape=imposed).  Systematic: every depth-1 tree over 3 coordinates with 3-state leaves (absent / explicit 0 "
             "/ value), every depth-2 tree over a 2x2 grid with rows absent / empty / 3-state leaves, a family of depth-3 "
             "trees over a 2x2x2 grid, each under all 3^depth descriptors, without and with an imposed larger shape; "
             "random: depth 1-3, extents 1-6 (one rank occasionally 31..70 wide so that bit masks span several words), "
             "density 0..1, explicit zeros and empty sub-fibers, declared / estimated shapes, the all-zero tensor; rank "
             "ids M,N,K or (random part) distinct names drawn from a pool of one- and two-character ids.  Codec reuse "
             "(kind 'seq'): ONE Codec(desc) encodes 2-4 tensors of the same depth in a row, each with a fresh output "
             "dict from get_output_dict(its rank ids); the rank ids of consecutive tensors are identical, a permutation "
             "(a tensor followed by its rank-permuted transpose) or disjoint; systematic: fixed depth-1/2/3 sequences "
             "under all descriptors, random: sequences of random tensors.  Every encoding (fresh or reused codec) gets "
             "the sequential per-fiber checks and then the concurrent schedules: round-robin co-iteration of all "
             "fibers of each rank, a nested top-down walk of the whole encoded tensor, and (seq) a two-finger "
             "co-iteration of the top fibers / first leaf fibers of the encoded tensors of the sequence.  Every scan "
             "(sequential from every base, and every concurrent schedule) is run with two handle disciplines: each handle "
             "resolved (handleToCoord / handleToPayload / payloadToValue) as soon as nextInSlice returned it, and all "
             "handles of the scan kept and resolved after the scan (schedule) has ended, coordinates in scan order, "
             "payloads from the last handle back to the first.  "
             "Cache (every kind): the stub cache attached to the encoded fibers is unbounded or (random part) an LRU "
             "of 4 / 32 entries; kind 'seq' with cache='shared': ONE cache object is attached to the fibers of every "
             "encoding of the sequence (fibers named T_<rank id>_<index> as in swoop_util, so encodings with the same rank "
             "ids use the same names), every systematic sequence is run with fresh and with shared caches.  "
             "Non-trivial = the tensor holds at least one non-zero leaf and the encoding was produced; distinct = "
             "distinct (tree, shape, rank ids, descriptor, imposed shape, rank ids the codec encoded before, cache mode)."),
    "shards": {"quick": 16, "thorough": 16},
    "min_counts": {"quick": {"evaluations": 4000, "oracle_evals": 60000, "encodings": 4000, "decodes_ok": 3000,
                             "fibers_scanned": 20000, "kept_handle_scans": 20000,
                             "kept_handle_concurrent_scans": 10000, "lookup_queries": 20000, "sizes_checked": 20000,
                             "imposed_shape_cases": 1000, "empty_fiber_cases": 500, "allzero_cases": 50,
                             "multiword_mask_fibers": 20,
                             "concurrent_scans": 20000, "coiterations": 2000, "nested_walks": 3000,
                             "reused_codec_encodings": 500, "rank_id_changes": 300, "cross_tensor_coiterations": 300,
                             "shared_cache_encodings": 150, "shared_cache_same_names": 40,
                             "bounded_cache_encodings": 300},
                   "thorough": {"evaluations": 60000, "oracle_evals": 1000000, "encodings": 60000,
                                "fibers_scanned": 300000, "kept_handle_scans": 300000,
                                "kept_handle_concurrent_scans": 150000, "lookup_queries": 300000, "sizes_checked": 300000,
                                "multiword_mask_fibers": 300,
                                "concurrent_scans": 300000, "coiterations": 30000, "nested_walks": 50000,
                                "reused_codec_encodings": 5000, "rank_id_changes": 3000,
                                "cross_tensor_coiterations": 3000, "shared_cache_encodings": 1500,
                                "shared_cache_same_names": 400, "bounded_cache_encodings": 3000}},
    "budget_s": {"quick": 150, "thorough": 900},
    "timeout_s": {"quick": 600, "thorough": 1800},
    "assumptions": [
        "formats U, C, B only (statement); leaf default 0, integer coordinates, integer leaf values, every declared extent "
        ">= 1 (an extent estimated by the library for a rank holding no coordinate may be 0)",
        "encoded with the documented entry sequence of codec/swoop_util.py: Codec(desc, [True]*depth), get_output_dict, "
        "encode(-1, root, rank_ids, output, output_tensor, shape=imposed); fibers get a name and a (stub) cache as there",
        "an imposed shape is >= the tensor's own shape in every rank (the codec asserts this); without an imposed shape the "
        "fiber shape of a rank is the tensor's shape of that rank as reported before encoding",
        "a fresh tensor is built for every encoding (U encoding fetches default sub-fibers from the operand; purity is C10's)",
        "the Codec object is fresh, or (kind 'seq') the same object is reused for several tensors of the descriptor's depth, "
        "each call sequence starting with its own get_output_dict(rank ids of that tensor); a codec holds a descriptor, not a "
        "tensor, so every encoding it produces is in scope",
        "rank ids are non-empty strings, distinct within a tensor also after lower-casing (the output dict keys are "
        "coords_<id.lower()> / payloads_<id.lower()>)",
        "every encoded fiber owns its slice position: any interleaving of setupSlice/nextInSlice/handleTo* calls on different "
        "fiber objects (of one encoded tensor or of several) is a legal way of 'scanning each encoded fiber'; one slice per "
        "fiber object at a time",
        "a handle returned by nextInSlice names one element of the fiber (it is what handleToCoord / handleToPayload take): "
        "while the encoded fiber is not modified it resolves to that element whenever it is resolved - at once, after later "
        "nextInSlice calls on the same slice, or after the slice is exhausted - and in any order; a consumer that first runs "
        "the scan and then resolves the handles 'scans the fiber through its handle interface' as much as one that "
        "resolves each handle before asking for the next",
        "cache hit/miss statistics and read/write counters are not part of the property; the library's prints are discarded",
        "the cache attached to the encoded fibers (attribute `cache`, any object with get / item assignment / miss_count / "
        "hit_count) is an access model, not storage: the elements a fiber presents are those of its own arrays whatever the "
        "cache already holds - nothing, entries of earlier scans of the same fiber, entries put there by the fibers of other "
        "encodings sharing the cache object (one modelled buffer serving several tensors; fibers of tensors with the same "
        "name and rank ids carry the same fiber names), and whether or not the cache evicts (bounded LRU)",
        "word count of a fiber with n stored elements and shape s (reading of 'coordinates or mask words, occupancy entries, "
        "payload entries'): coordinate words U 0, C n, B ceil(s/32); occupancy entries one per slot (U: s, C/B: n) iff the "
        "child rank is compressed (C/B); payload entries one per slot at a leaf, and one child reference per element for "
        "interior C/B fibers above a compressed rank (none for U: children at fixed stride; none above a U rank)",
        "cross-rank fiber numbering through payloadToFiberHandle is judged only for U fibers (fixed stride); for C/B fibers it "
        "is a position inside the fiber, and C-above-U handleToPayload returns the fiber's own offset: neither is an element "
        "of the fiber, so only their coordinates are compared there",
        "slices are scanned with base in [0, shape] and no bound / max_num",
    ],
}

RANKS = ["M", "N", "K"]
ID_POOL = ["M", "N", "K", "I", "J", "S", "P", "Q", "X", "D0", "D1", "K0", "K1", "Rank"]     # distinct also lower-cased
NTENSORS_QUICK, NTENSORS_THOROUGH = 1200, 30000
NSEQS_QUICK, NSEQS_THOROUGH = 160, 4000
FMTS = "UCB"
BITS_PER_WORD = 32


# ------------------------------------------------------------------------------------------
# generation
# ------------------------------------------------------------------------------------------
def _descs(depth):
    return ["".join(p) for p in itertools.product(FMTS, repeat=depth)]


def _leaf3(vec, salt=0):
    out = []
    for c, s in enumerate(vec):
        if s == 1:
            out.append([c, 0])
        elif s == 2:
            out.append([c, gen.VALUES[(c + salt) % len(gen.VALUES)]])
    return out


def _systematic(tier):
    """Yields (spec, depth, shape) of the small-scope sweeps (deterministic order)."""
    # depth 1: all 3-state vectors over 3 coordinates
    for vec in itertools.product(range(3), repeat=3):
        yield _leaf3(vec), 1, [3]
    # depth 2: rows absent | empty | 3-state leaves over 2 coordinates (not all absent -> 8 leaf rows + [] )
    rows = [None, []] + [_leaf3(v, 1) for v in itertools.product(range(3), repeat=2) if any(v)]
    for r0 in rows:
        for r1 in rows:
            spec = [[c, r] for c, r in ((0, r0), (1, r1)) if r is not None]
            yield spec, 2, [2, 2]
    # depth 3: planes absent | empty | one of a family of 2x2 planes
    planes = [None, [], [[0, []]], [[0, [[1, 3]]]], [[1, [[0, 2], [1, 5]]]], [[0, [[0, 1]]], [1, [[1, 7]]]],
              [[0, [[0, 0]]], [1, [[0, -1]]]], [[0, [[0, 1], [1, 2]]], [1, [[0, 3], [1, 5]]]]]
    if tier != "quick":
        planes += [[[0, []], [1, [[1, 2]]]], [[1, [[1, 0]]]], [[0, [[1, 7]]], [1, []]]]
    for p0 in planes:
        for p1 in planes:
            spec = [[c, p] for c, p in ((0, p0), (1, p1)) if p is not None]
            yield spec, 3, [2, 2, 2]


def generate(rng, tier, shard, nshards, mon):
    idx = 0
    for spec, depth, shape in _systematic(tier):
        for desc in _descs(depth):
            for imposed in (None, [s + 1 + (i % 2) for i, s in enumerate(shape)]):
                if idx % nshards == shard:
                    yield {"kind": "enc", "depth": depth, "spec": spec, "shape": shape, "desc": desc,
                           "imposed": imposed, "sys": True}
                idx += 1
    mon.exhaustive["small-scope trees x all descriptors x {no, +1/+2} imposed shape"] = True
    for depth, items in _systematic_seqs():
        for desc in _descs(depth):
            for cmode in ("fresh", "shared"):
                if idx % nshards == shard:
                    yield {"kind": "seq", "depth": depth, "desc": desc, "items": items, "sys": True, "cache": cmode}
                idx += 1
    mon.exhaustive["fixed rank-id sequences (same / permuted / disjoint ids) on one codec x all descriptors "
                   "x {fresh, shared} cache"] = True
    nseqs = (NSEQS_QUICK if tier == "quick" else NSEQS_THOROUGH) // nshards + 1
    for _ in range(nseqs):
        depth, items = _random_seq(rng)
        descs = _descs(depth)
        for desc in (descs if depth <= 2 else rng.sample(descs, 9)):
            its = [dict(it) for it in items]
            for it in its:
                if it.pop("impose", False):
                    it["imposed"] = _random_imposed(rng, it["shape"], desc)
            yield {"kind": "seq", "depth": depth, "desc": desc, "items": its,
                   "cache": rng.choice(["fresh", "shared", "shared"]), "cache_cap": rng.choice([None, None, 4, 32])}
    ntensors = (NTENSORS_QUICK if tier == "quick" else NTENSORS_THOROUGH) // nshards + 1
    for _ in range(ntensors):
        base = _random_tensor(rng)
        depth = base["depth"]
        if rng.random() < 0.3:
            base["rank_ids"] = rng.sample(ID_POOL, depth)
        base["cache_cap"] = rng.choice([None, None, None, 4, 32])
        descs = _descs(depth)
        for desc in descs:
            case = dict(base)
            case["desc"] = desc
            case["imposed"] = None
            yield case
        # the same tensor under an imposed shape (all descriptors for depth<=2, a sample of 9 for depth 3)
        own = base["shape"]
        for desc in (descs if depth <= 2 else rng.sample(descs, 9)):
            case = dict(base)
            case["desc"] = desc
            case["imposed"] = _random_imposed(rng, own, desc)
            yield case


def _item(spec, shape, rank_ids, imposed=None):
    return {"spec": spec, "shape": shape, "rank_ids": list(rank_ids), "imposed": imposed}


def _permuted(spec, depth, perm):
    """The same content with rank j of the result = rank perm[j] of `spec` (canonical spec)."""
    content = gen.content_of_spec(spec, 0)
    return gen.spec_from_content({tuple(pt[j] for j in perm): v for pt, v in content.items()}, depth)


def _systematic_seqs():
    """Yields (depth, items): tensors one codec encodes in a row; rank ids repeated, permuted, replaced."""
    v1, v2 = [[0, 3], [2, 5]], [[1, 7], [2, 0], [3, -1]]
    yield 1, [_item(v1, [3], ["K"]), _item(v2, [4], ["J"]), _item(v1, [3], ["K"])]
    yield 1, [_item(v2, [4], ["S"]), _item(v1, [4], ["S"]), _item(v1, [3], ["D0"]), _item([], [2], ["D1"])]
    a = gen.spec_from_content({(0, 1): 7, (0, 3): 5, (2, 0): 3, (2, 3): 4, (2, 4): 6}, 2)
    b = gen.spec_from_content({(0, 0): 1, (0, 2): 2, (1, 2): 3}, 2)
    at = _permuted(a, 2, (1, 0))
    yield 2, [_item(a, [3, 5], "MK"), _item(at, [5, 3], "KM"), _item(b, [2, 3], "IJ"), _item(a, [3, 5], "MK")]
    yield 2, [_item(b, [2, 3], "IJ"), _item(b, [2, 3], "JI"), _item(a, [3, 5], "JK")]
    yield 2, [_item(at, [5, 3], ["D1", "D0"]), _item(a, [3, 5], ["D0", "D1"]), _item(at, None, ["D1", "D0"])]
    yield 2, [_item(a, [3, 5], "MK"), _item(b, [2, 3], "MK"), _item(at, [6, 3], "MK", [7, 4])]
    c = gen.spec_from_content({(0, 0, 1): 1, (0, 1, 0): 2, (2, 0, 0): 3, (2, 1, 1): 4, (2, 2, 0): 5, (2, 2, 1): 6}, 3)
    yield 3, [_item(c, [3, 3, 2], "MNK"), _item(_permuted(c, 3, (1, 0, 2)), [3, 3, 2], "NMK")]
    yield 3, [_item(c, [3, 3, 2], "MNK"), _item(_permuted(c, 3, (2, 0, 1)), [2, 3, 3], "KMN"),
              _item(c, [3, 3, 2], "PQS"), _item(c, [3, 3, 2], "MNK")]
    yield 3, [_item(_permuted(c, 3, (2, 1, 0)), [2, 3, 3], "KNM"), _item(c, [3, 3, 2], "MNK"),
              _item(c, [3, 3, 2], "MNK")]


def _random_seq(rng):
    first = _random_tensor(rng)
    depth = first["depth"]
    ids = rng.choice([RANKS[:depth], rng.sample(ID_POOL, depth)])
    items = []
    cur = first
    for k in range(rng.choice([2, 2, 3, 3, 4])):
        if k:
            r = rng.random()
            if r < 0.35 and depth > 1 and gen.content_of_spec(cur["spec"], 0):
                # the rank-permuted transpose of the previous tensor, under the permuted rank ids
                perm = list(range(depth))
                while perm == list(range(depth)):
                    rng.shuffle(perm)
                shape = cur["shape"]
                cur = {"spec": _permuted(cur["spec"], depth, perm), "depth": depth,
                       "shape": [shape[j] for j in perm] if shape is not None else None}
                ids = [ids[j] for j in perm]
            else:
                cur = _random_tensor(rng, depth)
                q = rng.random()
                if q < 0.25:
                    pass                                    # the same rank ids again
                elif q < 0.55 and depth > 1:
                    ids = rng.sample(ids, depth)            # the same ids in another order
                elif q < 0.8:
                    ids = rng.sample(ID_POOL, depth)        # other ids (may overlap)
                else:
                    ids = rng.sample([i for i in ID_POOL if i not in ids], depth)
        it = _item(cur["spec"], cur["shape"], ids)
        if rng.random() < 0.3:
            it["impose"] = True
        items.append(it)
    return depth, items


def _random_tensor(rng, depth=None):
    if depth is None:
        depth = rng.choice([1, 2, 2, 3, 3])
    extents = [rng.randint(1, 6) for _ in range(depth)]
    wide = None
    if depth <= 2 and rng.random() < 0.15:
        # longer fibers (binary search, slices): one rank 8..24 wide, fairly dense
        extents[rng.randrange(depth)] = rng.randint(8, 24)
        spec = gen.rand_tree_spec(rng, extents, rng.choice([0.3, 0.6, 0.9]), rng.choice([0.0, 0.3]), 0)
        return {"kind": "enc", "depth": depth, "spec": spec, "shape": rng.choice([list(extents), None]) if spec else list(extents)}
    if rng.random() < 0.12:
        wide = rng.randrange(depth)
        extents[wide] = rng.choice([31, 32, 33, 63, 64, 65, 70])
        for i in range(depth):
            if i != wide:
                extents[i] = min(extents[i], 3)
    r = rng.random()
    if r < 0.06:
        spec = []                                           # the all-zero tensor
    elif wide is not None:
        spec = _sparse_tree(rng, extents, rng.randint(1, 6))
    else:
        dens = rng.choice([0.15, 0.4, 0.7, 1.0])
        dirty = rng.choice([0.0, 0.0, 0.4, 0.8])
        spec = gen.rand_tree_spec(rng, extents, dens, dirty, 0)
    # declared shape: exactly the extents, larger, or not declared at all (estimated by the library)
    k = rng.random()
    if k < 0.55 or not spec:
        shape = list(extents)
    elif k < 0.8:
        shape = [e + rng.choice([0, 1, 3]) for e in extents]
    else:
        shape = None
    return {"kind": "enc", "depth": depth, "spec": spec, "shape": shape}


def _sparse_tree(rng, extents, npoints):
    content = {}
    for _ in range(npoints):
        pt = tuple(rng.randrange(e) if rng.random() < 0.7 else rng.choice([0, e - 1]) for e in extents)
        content[pt] = rng.choice(gen.VALUES)
    return gen.spec_from_content(content, len(extents))


def _random_imposed(rng, own, desc):
    """Per-rank increments; resolved against the tensor's real shape in run_case when `own` is not declared."""
    inc = []
    for i in range(len(desc)):
        r = rng.random()
        if r < 0.3:
            inc.append(0)
        elif r < 0.85:
            inc.append(rng.choice([1, 2, 3]))
        else:
            inc.append(rng.choice([26, 27, 31, 32, 58, 59, 60]))
    if own is not None:
        return [o + d for o, d in zip(own, inc)]
    return {"plus": inc}


# ------------------------------------------------------------------------------------------
# the independent decoder
# ------------------------------------------------------------------------------------------
class DecodeError(Exception):
    def __init__(self, kind, detail):
        Exception.__init__(self, f"{kind}: {detail}")
        self.kind = kind


class FiberRec:
    """What the layout says about one fiber: slots (coordinate, value | child index) in stored order."""
    __slots__ = ("rank", "fmt", "shape", "coords", "values", "children", "n_expected")

    def __init__(self, rank, fmt, shape):
        self.rank, self.fmt, self.shape = rank, fmt, shape
        self.coords, self.values, self.children = [], None, None


def decode(out, keys, desc, shape):
    """-> (content {point: value}, per-rank list of FiberRec in depth-first order).  Raises DecodeError."""
    depth = len(desc)
    cur_c = [0] * depth
    cur_p = [0] * depth
    recs = [[] for _ in range(depth)]
    content = {}

    def take(kind, r, n):
        arr = out[keys[r][0 if kind == "c" else 1]]
        cur = cur_c if kind == "c" else cur_p
        if cur[r] + n > len(arr):
            raise DecodeError("coords-underrun" if kind == "c" else "payloads-underrun",
                              f"rank {r} ({desc[r]}): need {n} more words at {cur[r]} of {len(arr)}")
        part = arr[cur[r]:cur[r] + n]
        cur[r] += n
        return part

    def fiber(r, n, prefix):
        fmt, s = desc[r], shape[r]
        rec = FiberRec(r, fmt, s)
        index = len(recs[r])
        recs[r].append(rec)
        if fmt == "U":
            rec.coords = list(range(s))
        elif fmt == "C":
            if n is None:
                raise DecodeError("occupancy-unknown", f"C fiber at rank {r} without an occupancy")
            rec.coords = take("c", r, n)
            for a, b in zip(rec.coords, rec.coords[1:]):
                if not (isinstance(a, int) and isinstance(b, int) and a < b):
                    raise DecodeError("coords-not-increasing", f"rank {r}: {rec.coords}")
            if rec.coords and not (isinstance(rec.coords[0], int) and 0 <= rec.coords[0] and rec.coords[-1] < s):
                raise DecodeError("coords-out-of-shape", f"rank {r}: {rec.coords} shape {s}")
        else:
            bits = take("c", r, s)
            for b in bits:
                if b not in (0, 1) or isinstance(b, bool):
                    raise DecodeError("mask-word-not-a-bit", f"rank {r}: {bits}")
            rec.coords = [i for i, b in enumerate(bits) if b == 1]
            if n is not None and len(rec.coords) != n:
                raise DecodeError("mask-popcount", f"rank {r}: mask {bits} has {len(rec.coords)} bits, occupancy says {n}")
        k = len(rec.coords)
        if r == depth - 1:
            rec.values = take("p", r, k)
            for c, v in zip(rec.coords, rec.values):
                if v != 0:
                    content[prefix + (c,)] = v
            return index
        rec.children = []
        if desc[r + 1] in "CB":
            ends = take("p", r, k)
            prev = 0
            for c, e in zip(rec.coords, ends):
                if not isinstance(e, int) or isinstance(e, bool) or e < prev:
                    raise DecodeError("segment-ends-not-monotone", f"rank {r}: {ends}")
                rec.children.append(fiber(r + 1, e - prev, prefix + (c,)))
                prev = e
        else:
            for c in rec.coords:
                rec.children.append(fiber(r + 1, None, prefix + (c,)))
        return index

    root_n = None
    proot = out["payloads_root"]
    if desc[0] in "CB":
        if len(proot) != 1 or not isinstance(proot[0], int) or isinstance(proot[0], bool) or proot[0] < 0:
            raise DecodeError("root-occupancy", f"payloads_root = {proot} for a compressed top rank")
        root_n = proot[0]
    elif proot:
        raise DecodeError("root-occupancy", f"payloads_root = {proot} for an uncompressed top rank")
    fiber(0, root_n, ())
    for r in range(depth):
        if cur_c[r] != len(out[keys[r][0]]) or cur_p[r] != len(out[keys[r][1]]):
            raise DecodeError("arrays-not-consumed",
                              f"rank {r} ({desc[r]}): consumed {cur_c[r]}/{len(out[keys[r][0]])} coordinate words, "
                              f"{cur_p[r]}/{len(out[keys[r][1]])} payload words")
    return content, recs


def expected_size(rec, desc):
    leaf = rec.rank == len(desc) - 1
    child_compressed = (not leaf) and desc[rec.rank + 1] in "CB"
    n = len(rec.coords)
    if rec.fmt == "U":
        return rec.shape if (leaf or child_compressed) else 0
    if rec.fmt == "C":
        return 2 * n if leaf else (3 * n if child_compressed else n)
    words = -(-rec.shape // BITS_PER_WORD)
    return words + (n if leaf else (2 * n if child_compressed else 0))


# ------------------------------------------------------------------------------------------
# driving the real code
# ------------------------------------------------------------------------------------------
class _Null:
    def write(self, s):
        return len(s)

    def flush(self):
        pass


class StubCache(dict):
    """Stands in for the boltons LRU of the reference scripts (get / item assignment / miss_count / hit_count)."""

    def __init__(self, capacity=None):
        dict.__init__(self)
        self.miss_count = 0
        self.hit_count = 0
        self.capacity = capacity        # None = unbounded, else least-recently-used eviction
        self.served = 0                 # number of encodings whose fibers were attached to this cache before
        self.names = set()              # fiber names attached so far

    def get(self, key, default=None):
        if key in self:
            self.hit_count += 1
            val = dict.pop(self, key)
            dict.__setitem__(self, key, val)        # most recently used last
            return val
        self.miss_count += 1
        return default

    def __setitem__(self, key, val):
        if key in self:
            dict.pop(self, key)
        dict.__setitem__(self, key, val)
        if self.capacity is not None:
            while len(self) > self.capacity:
                dict.pop(self, next(iter(self)))

    def __repr__(self):
        return "<stub cache>"

    __str__ = __repr__


def quiet():
    return contextlib.nullcontext()         # stdout is redirected once per case in run_case


def rank_ids_of(case, depth):
    return list(case.get("rank_ids") or RANKS[:depth])


def build_tensor(case):
    depth = case["depth"]
    rank_ids = rank_ids_of(case, depth)
    spec = case["spec"]
    shape = case.get("shape")
    if not spec:
        return Tensor(rank_ids=list(rank_ids), shape=list(shape))
    return gen.tensor_from_spec(spec, rank_ids, shape=shape)


def make_codec(desc):
    from fibertree.codec.tensor_codec import Codec
    return Codec(tuple(desc), [True] * len(desc))


def _cache_tag(fib):
    """Key suffix: the fiber's cache was already used by the fibers of an earlier encoding."""
    return ":cache-used-by-earlier-encoding" if getattr(getattr(fib, "cache", None), "served", 0) > 1 else ""


def encode(t, desc, imposed, codec=None, cache=None):
    if codec is None:
        codec = make_codec(desc)
    rank_ids = t.getRankIds()
    output = codec.get_output_dict(rank_ids)
    output_tensor = [list() for _ in range(len(desc) + 1)]
    codec.encode(-1, t.getRoot(), rank_ids, output, output_tensor, shape=imposed)
    # name the fibers and give them a cache, as the documented entry sequence (swoop_util) does
    if cache is None:
        cache = StubCache()
    cache.served += 1
    names = ["root"] + list(rank_ids)
    mine = set()
    for ri, rank in enumerate(output_tensor):
        for fi, fiber in enumerate(rank):
            fiber.setName("_".join(["T", names[ri], str(fi)]))
            fiber.cache = cache
            if ri:
                mine.add(fiber.name)    # (the root holder is called T_root_0 in every encoding)
    cache.same_names = bool(mine & cache.names)
    cache.names |= mine
    return output, output_tensor


def _scan(fiber, base, cap, leaf, keep=False):
    """Elements presented by the handle interface from `base`: [(coord, payload handle, value or None)].
    keep=False: every handle is resolved as soon as the scan produces it.  keep=True: the scan is run to its end
    first and the handles it produced are resolved afterwards (all coordinates in scan order, then the payloads
    from the last handle back to the first) - a handle names its element, not the scan's current position."""
    fiber.setupSlice(base)
    got = []
    if keep:
        hs = []
        while True:
            h = fiber.nextInSlice()
            if h is None:
                break
            if len(hs) >= cap:
                return got, True
            hs.append(h)
        return _resolve_kept(fiber, hs, leaf), False
    while True:
        h = fiber.nextInSlice()
        if h is None:
            break
        if len(got) >= cap:
            return got, True
        c = fiber.handleToCoord(h)
        ph = fiber.handleToPayload(h)
        v = fiber.payloadToValue(ph) if leaf else None
        got.append((c, ph, v))
    return got, False


def _resolve_kept(fiber, hs, leaf):
    cs = [fiber.handleToCoord(h) for h in hs]
    pv = []
    for h in reversed(hs):
        ph = fiber.handleToPayload(h)
        pv.append((ph, fiber.payloadToValue(ph) if leaf else None))
    pv.reverse()
    return [(c, ph, v) for c, (ph, v) in zip(cs, pv)]


# ------------------------------------------------------------------------------------------
# the case
# ------------------------------------------------------------------------------------------
def run_case(case, mon):
    with contextlib.redirect_stdout(_Null()):       # the codec prints on almost every call
        _run_case(case, mon)


def _run_case(case, mon):
    if case.get("kind") != "seq":
        _run_one(case, mon, None, None)
        return
    # one Codec object for the whole sequence
    depth, desc = case["depth"], case["desc"]
    try:
        codec = make_codec(desc)
    except BaseException as e:      # noqa
        mon.violation(f"encode:raised:{type(e).__name__}", f"Codec({desc}) raised {type(e).__name__}: {e}")
        return
    before, done = [], []
    shared = StubCache(case.get("cache_cap")) if case.get("cache") == "shared" else None
    for pos, item in enumerate(case["items"]):
        sub = dict(item)
        sub["depth"], sub["desc"] = depth, desc
        sub["cache_cap"] = case.get("cache_cap")
        ids = rank_ids_of(sub, depth)
        if pos:
            mon.count("reused_codec_encodings")
            if ids != before[-1]:
                mon.count("rank_id_changes")
        res = _run_one(sub, mon, codec, list(before), shared)
        before.append(ids)
        if res is not None:
            done.append(res)
    # the encoded tensors of the sequence co-iterated: their top fibers, and their first leaf fibers
    if len(done) >= 2:
        groups = [[(d["recs"][0][0], d["ot"][1][0], d["ot"], depth == 1) for d in done]]
        if depth > 1:
            groups.append([(d["recs"][-1][0], d["ot"][depth][0], d["ot"], True) for d in done if d["recs"][-1]])
        for group in groups:
            if len(group) >= 2:
                mon.count("cross_tensor_coiterations")
                _coiterate(mon, group, "across-tensors", desc, merge=True)
                _coiterate(mon, group, "across-tensors", desc, merge=True, keep=True)


def _run_one(case, mon, codec, before, cache=None):
    """One encoding and all its checks.  `codec`: the object to encode with (None = a fresh one); `before`: rank ids
    of the tensors that object encoded earlier.  Returns {"recs", "ot"} when the encoded fibers passed every
    sequential check (so that they can take part in further concurrent schedules), else None."""
    depth, desc = case["depth"], case["desc"]
    rank_ids = rank_ids_of(case, depth)
    ctx = "" if not before else f" [codec reused: encoded rank ids {before} before, now {rank_ids}]"
    want = gen.content_of_spec(case["spec"], 0)
    try:
        with quiet():
            t = build_tensor(case)
            own = [int(s) for s in t.getShape()]
    except BaseException as e:      # noqa  (harness-side construction through public constructors)
        mon.violation(f"build:raised:{type(e).__name__}", f"building the tensor raised {type(e).__name__}: {e}")
        return
    if case.get("shape") is not None and own != list(case["shape"]):
        mon.count("declared_shape_not_reported")        # C14's business; the decoder uses the reported shape
    imposed = case.get("imposed")
    if isinstance(imposed, dict):
        imposed = [o + d for o, d in zip(own, imposed["plus"])]
    if imposed is not None:
        imposed = [max(i, o) for i, o in zip(imposed, own)]
        mon.count("imposed_shape_cases")
    shape = list(imposed) if imposed is not None else own
    keys = [(f"coords_{r.lower()}", f"payloads_{r.lower()}") for r in rank_ids]

    # ---- encode (real code) -----------------------------------------------------------------
    try:
        with quiet():
            if cache is None:
                cache = StubCache(case.get("cache_cap"))
            out, ot = encode(t, desc, list(imposed) if imposed is not None else None, codec, cache)
    except BaseException as e:      # noqa
        mon.violation(f"encode:raised:{type(e).__name__}",
                      f"encode {desc} shape={imposed} raised {type(e).__name__}: {e}{ctx}")
        return
    mon.count("encodings")
    if cache.capacity is not None:
        mon.count("bounded_cache_encodings")
    if cache.served > 1:
        mon.count("shared_cache_encodings")
        ctx += f" [cache object already served {cache.served - 1} earlier encoding(s)]"
        if cache.same_names:
            mon.count("shared_cache_same_names")
    if not want:
        mon.count("allzero_cases")
    mon.state(jhash([desc, out]))

    ok_keys = set(["payloads_root"] + [k for pair in keys for k in pair])
    mon.check(set(out.keys()) == ok_keys, "encode:output-dict-keys",
              f"{desc}: output dict has keys {sorted(out.keys())}, expected {sorted(ok_keys)}{ctx}")

    # ---- decode by layout -------------------------------------------------------------------
    eff_shape = shape
    recs = None
    try:
        got, recs = decode(out, keys, desc, shape)
        problem = None if got == want else ("content", _diff(got, want))
    except DecodeError as e:
        problem = (e.kind, str(e))
    except KeyError as e:
        problem = ("missing-array", f"output dict has no {e}")
    if problem is not None:
        # diagnosis only: is this the imposed shape not reaching the ranks below a B rank?
        alt = _shape_if_dropped_below_B(desc, own, imposed)
        classified = False
        if alt is not None and alt != shape:
            try:
                got2, recs2 = decode(out, keys, desc, alt)
                if got2 == want:
                    classified = True
                    eff_shape, recs = alt, recs2
                    mon.violation("encode:imposed-shape:ignored-below-B-rank",
                                  f"{desc} imposed shape {imposed} (tensor shape {own}): the arrays decode to the "
                                  f"tensor only with per-rank shapes {alt}, i.e. the imposed shape did not reach the "
                                  f"ranks below the first B rank [{problem[0]}: {problem[1][:200]}]")
            except (DecodeError, KeyError):
                pass
        if not classified:
            mon.violation(f"decode:{problem[0]}" + (":imposed-shape" if imposed is not None and imposed != own else ""),
                          f"{desc} shape={shape}: arrays {out} do not decode to the tensor: {problem[1][:400]}{ctx}")
            recs = None
    else:
        mon.count("oracle_evals")
        mon.count("decodes_ok")
    if want:
        key = {k: case.get(k) for k in ("spec", "shape", "desc", "imposed")}
        key["rank_ids"], key["before"] = rank_ids, before
        key["cache"] = [cache.served > 1, cache.capacity]
        mon.nontrivial(key)
    if recs is None:
        return None
    raw0 = mon.counters["violations_raw"]

    # ---- the encoded fiber objects ---------------------------------------------------------------
    nfib = [len(r) for r in ot[1:]]
    if not mon.check(nfib == [len(r) for r in recs], "encode:fiber-objects-per-rank",
                     f"{desc}: output_tensor holds {nfib} fibers per rank, the arrays hold {[len(r) for r in recs]}"):
        return None
    try:
        ok = len(ot[0]) == 1 and list(ot[0][0].getPayloads()) == [ot[1][0]]
    except BaseException:       # noqa
        ok = False
    mon.check(ok, "encode:root-object", f"{desc}: output_tensor[0] is not a single root holding the top fiber")
    if ok:
        _check_size(mon, ot[0][0], len(out["payloads_root"]), "root", desc, None)

    had_empty = False
    for r in range(depth):
        leaf = r == depth - 1
        for i, (rec, fib) in enumerate(zip(recs[r], ot[r + 1])):
            fmt = rec.fmt
            cls = type(fib).__name__
            if not mon.check(cls == {"U": "Uncompressed", "C": "CoordinateList", "B": "Bitvector"}[fmt],
                             "encode:fiber-object-class", f"{desc}: rank {r} fiber {i} is a {cls}"):
                continue
            if fmt != "U" and not rec.coords:
                had_empty = True
            if fmt == "B" and rec.shape > BITS_PER_WORD:
                mon.count("multiword_mask_fibers")
            _check_scan(mon, rec, fib, i, ot, eff_shape, desc, leaf)
            if fmt == "C":
                _check_lookup(mon, rec, fib, desc)
            _check_size(mon, fib, expected_size(rec, desc), fmt, desc, rec)
    if had_empty:
        mon.count("empty_fiber_cases")
    if mon.counters["violations_raw"] != raw0:
        return None         # already reported fiber by fiber; concurrent schedules only over fibers that scan correctly alone

    # ---- concurrent schedules: a fiber's elements do not depend on which other slices are open -----
    for r in range(depth):
        group = [(rec, fib, ot, r == depth - 1) for rec, fib in zip(recs[r], ot[r + 1])]
        if len(group) >= 2:
            mon.count("coiterations")
            _coiterate(mon, group, "siblings", desc, merge=False)
            _coiterate(mon, group, "siblings", desc, merge=False, keep=True)
    mon.count("nested_walks")
    _nested_walk(mon, recs, ot, desc)
    _nested_walk(mon, recs, ot, desc, keep=True)
    if mon.counters["violations_raw"] != raw0:
        return None
    return {"recs": recs, "ot": ot}


def _diff(got, want):
    missing = {k: v for k, v in want.items() if got.get(k) != v}
    extra = {k: v for k, v in got.items() if k not in want}
    return f"missing/wrong {dict(list(missing.items())[:4])} extra {dict(list(extra.items())[:4])}"


def _shape_if_dropped_below_B(desc, own, imposed):
    if imposed is None or "B" not in desc:
        return None
    b = desc.index("B")
    return [imposed[i] if i <= b else own[i] for i in range(len(desc))]


def _expected_elements(rec, base):
    if rec.values is not None:
        return [(c, v) for c, v in zip(rec.coords, rec.values) if c >= base]
    return [(c, k) for c, k in zip(rec.coords, rec.children) if c >= base]


def _check_scan(mon, rec, fib, index, ot, shape, desc, leaf):
    fmt = rec.fmt
    r = rec.rank
    what = f"scan:{fmt}:{'leaf' if leaf else 'interior'}"
    ctag = _cache_tag(fib)
    cap = rec.shape + len(rec.coords) + 2
    bases = [0]
    if rec.shape >= 1:
        extra = {rec.shape, rec.shape // 2, (rec.coords[-1] if rec.coords else 0)}
        if rec.coords:
            extra.add(rec.coords[0] + 1)
        bases += sorted(b for b in extra if 0 < b <= rec.shape)
    for base, keep in [(b, k) for b in bases for k in (False, True)]:
        # keep: the handles are resolved only after the scan has ended (see _scan)
        kind = ("full" if base == 0 else "from-base") + (":handles-kept" if keep else "") + ctag
        how = "scan" if not keep else "scan (handles resolved after the scan ended)"
        exp = _expected_elements(rec, base)
        try:
            with quiet():
                got, runaway = _scan(fib, base, cap, leaf, keep)
        except BaseException as e:      # noqa
            mon.violation(f"{what}:{kind}:raised:{type(e).__name__}",
                          f"{desc} rank {r} fiber {index}: {how} from {base} raised {type(e).__name__}: {e}")
            continue
        mon.count("kept_handle_scans" if keep else "fibers_scanned")
        if runaway:
            mon.violation(f"{what}:{kind}:runaway", f"{desc} rank {r} fiber {index}: {how} from {base} exceeds {cap} elements")
            continue
        if not mon.check([g[0] for g in got] == [e[0] for e in exp], f"{what}:{kind}:coords",
                         f"{desc} rank {r} fiber {index} (layout coords {rec.coords}, shape {rec.shape}): {how} from {base} "
                         f"presents coordinates {[g[0] for g in got]}, expected {[e[0] for e in exp]}"):
            continue
        if leaf:
            mon.check([g[2] for g in got] == [e[1] for e in exp], f"{what}:{kind}:values",
                      f"{desc} rank {r} fiber {index}: {how} from {base} presents values {[g[2] for g in got]} at "
                      f"{[g[0] for g in got]}, the layout holds {[e[1] for e in exp]}")
            continue
        # interior: the element's payload is the child fiber
        okc = _children_ok(rec, fib, got, exp, ot, desc)
        if okc is None:
            continue                    # children implicit at fixed stride; no payload entry to compare (see assumptions)
        mon.check(okc, f"{what}:{kind}:child",
                  f"{desc} rank {r} fiber {index}: payload handles {[g[1] for g in got]} of the {how} from {base} do not "
                  f"lead to the fiber's children (fibers {[e[1] for e in exp]} of the next rank)")
        if fmt == "U" and base == 0 and not keep:
            try:
                with quiet():
                    fh = [fib.payloadToFiberHandle(g[1]) for g in got]
            except BaseException as e:  # noqa
                mon.violation(f"{what}:payloadToFiberHandle:raised:{type(e).__name__}",
                              f"{desc} rank {r} fiber {index}: payloadToFiberHandle raised {type(e).__name__}: {e}")
                continue
            mon.check(fh == [e[1] for e in exp], f"{what}:payloadToFiberHandle",
                      f"{desc} rank {r} fiber {index}: payloadToFiberHandle gives {fh}, the children are fibers "
                      f"{[e[1] for e in exp]} of the next rank")


def _children_ok(rec, fib, got, exp, ot, desc):
    """Do the payload handles of the presented elements lead to the fiber's children?  None = not comparable."""
    r = rec.rank
    try:
        held = list(fib.getPayloads())
    except BaseException:           # noqa
        held = []
    if not held and rec.fmt == "C" and desc[r + 1] == "U":
        return None
    okc = True
    for (c, ph, _), (_, child) in zip(got, exp):
        try:
            obj = held[ph]
        except BaseException:       # noqa
            obj = None
        okc = okc and (obj is ot[r + 2][child])
    return okc


# ------------------------------------------------------------------------------------------
# concurrent schedules
# ------------------------------------------------------------------------------------------
class _Cursor:
    """One open slice (from base 0) on one encoded fiber, pulled element by element.  keep: the handles the scan
    produces are kept and resolved only by finish(), after every scan of the schedule has ended (pull() then
    resolves at most the coordinate, which a two-finger schedule needs to steer)."""
    __slots__ = ("rec", "fib", "ot", "leaf", "cap", "got", "error", "runaway", "done", "keep", "handles")

    def __init__(self, rec, fib, ot, leaf, keep=False):
        self.rec, self.fib, self.ot, self.leaf, self.keep = rec, fib, ot, leaf, keep
        self.cap = rec.shape + len(rec.coords) + 2
        self.got, self.error, self.runaway, self.done = [], None, False, False
        self.handles = []

    def open(self):
        try:
            self.fib.setupSlice(0)
        except BaseException as e:      # noqa
            self.error, self.done = e, True
        return self

    def pull(self, peek=False):
        if self.done:
            return None
        fib = self.fib
        try:
            h = fib.nextInSlice()
            if h is None:
                self.done = True
                return None
            if len(self.got) + len(self.handles) >= self.cap:
                self.runaway = self.done = True
                return None
            if self.keep:
                self.handles.append(h)
                return (fib.handleToCoord(h) if peek else None, None, None)
            c = fib.handleToCoord(h)
            ph = fib.handleToPayload(h)
            el = (c, ph, fib.payloadToValue(ph) if self.leaf else None)
        except BaseException as e:      # noqa
            self.error, self.done = e, True
            return None
        self.got.append(el)
        return el

    def finish(self):
        if self.keep and self.error is None and not self.runaway:
            try:
                self.got = _resolve_kept(self.fib, self.handles, self.leaf)
            except BaseException as e:  # noqa
                self.error = e
        return self


def _judge(mon, cur, mode, desc):
    rec = cur.rec
    what = f"scan:concurrent:{mode}:{rec.fmt}:{'leaf' if cur.leaf else 'interior'}"
    where = f"{desc} rank {rec.rank} {rec.fmt} fiber (layout coords {rec.coords}, shape {rec.shape})"
    mon.count("concurrent_scans")
    what += _cache_tag(cur.fib)
    if cur.keep:
        what += ":handles-kept"
        mode += ", handles resolved after all scans ended"
        mon.count("kept_handle_concurrent_scans")
    if cur.error is not None:
        mon.violation(f"{what}:raised:{type(cur.error).__name__}",
                      f"{where}: scanned while other slices are open ({mode}) raised {type(cur.error).__name__}: "
                      f"{cur.error}; scanned alone it presents its elements")
        return
    if cur.runaway:
        mon.violation(f"{what}:runaway", f"{where}: scanned while other slices are open ({mode}) it presents more "
                                         f"than {cur.cap} elements; scanned alone it presents its elements")
        return
    exp = _expected_elements(rec, 0)
    got = cur.got
    if not mon.check([g[0] for g in got] == [e[0] for e in exp], f"{what}:coords",
                     f"{where}: scanned while other slices are open ({mode}) it presents coordinates "
                     f"{[g[0] for g in got]}; scanned alone it presents {[e[0] for e in exp]}"):
        return
    if cur.leaf:
        mon.check([g[2] for g in got] == [e[1] for e in exp], f"{what}:values",
                  f"{where}: scanned while other slices are open ({mode}) it presents values {[g[2] for g in got]} at "
                  f"{[g[0] for g in got]}, the layout holds {[e[1] for e in exp]}")
        return
    okc = _children_ok(rec, cur.fib, got, exp, cur.ot, desc)
    if okc is not None:
        mon.check(okc, f"{what}:child",
                  f"{where}: scanned while other slices are open ({mode}) its payload handles {[g[1] for g in got]} do "
                  f"not lead to its children (fibers {[e[1] for e in exp]} of the next rank)")


def _coiterate(mon, group, mode, desc, merge, keep=False):
    """group: [(rec, fiber object, output_tensor it belongs to, leaf)].  A slice is opened on every fiber, then
    elements are pulled in turn (round robin), or two-finger style (merge: always advance the cursors standing at
    the smallest coordinate); every cursor must present the elements of its own fiber."""
    with quiet():
        curs = [_Cursor(*g, keep=keep).open() for g in group]
        if not merge:
            live = list(curs)
            while live:
                live = [c for c in live if c.pull() is not None]
        else:
            heads = [c.pull(True) for c in curs]
            while any(h is not None for h in heads):
                try:
                    low = min(h[0] for h in heads if h is not None)
                except TypeError:
                    low = None
                for j, h in enumerate(heads):
                    if h is not None and (low is None or h[0] == low):
                        heads[j] = curs[j].pull(True)
        for c in curs:
            c.finish()
    for c in curs:
        _judge(mon, c, mode, desc)


def _nested_walk(mon, recs, ot, desc, keep=False):
    """Top-down walk of the encoded tensor: the child of every presented element (the child the layout gives it)
    is scanned, recursively, while the scan of its parent is still open."""
    depth = len(desc)
    curs = []

    def walk(r, i):
        rec = recs[r][i]
        cur = _Cursor(rec, ot[r + 1][i], ot, r == depth - 1, keep).open()
        curs.append(cur)
        k = 0
        while cur.pull() is not None:
            if r < depth - 1 and k < len(rec.children):
                walk(r + 1, rec.children[k])
            k += 1

    with quiet():
        walk(0, 0)
        for c in curs:
            c.finish()
    for c in curs:
        _judge(mon, c, "nested", desc)


def _check_lookup(mon, rec, fib, desc):
    coords = rec.coords
    hi = max(rec.shape, (coords[-1] + 1) if coords else 0) + 1
    for q in range(-1, hi + 1):
        exp = bisect.bisect_left(coords, q)
        if exp == len(coords):
            exp = None
        try:
            with quiet():
                got = fib.coordToHandle(q)
        except BaseException as e:      # noqa
            mon.violation(f"lookup:C:raised:{type(e).__name__}",
                          f"{desc}: coordToHandle({q}) on C fiber {coords} raised {type(e).__name__}: {e}")
            continue
        mon.count("lookup_queries")
        side = "absent" if q not in coords else "present"
        mon.check(got == exp and (got is None or (isinstance(got, int) and not isinstance(got, bool))),
                  f"lookup:C:{side}",
                  f"{desc}: coordToHandle({q}) on C fiber with coordinates {coords} returned {got!r}, expected {exp!r}")


def _check_size(mon, fib, exp, fmt, desc, rec):
    try:
        with quiet():
            got = fib.getSize()
    except BaseException as e:          # noqa
        empty = rec is not None and not rec.coords          # no stored slot at all (U: extent 0)
        mon.violation(f"getSize:{fmt}:raised:{type(e).__name__}" + (":empty-fiber" if empty else ""),
                      f"{desc}: getSize() of a {fmt} fiber at rank {rec.rank if rec else 'root'} with "
                      f"{len(rec.coords) if rec else 1} elements raised {type(e).__name__}: {e} (expected {exp} words)")
        return
    mon.count("sizes_checked")
    where = "root" if rec is None else ("leaf" if rec.rank == len(desc) - 1 else
                                        ("above-compressed" if desc[rec.rank + 1] in "CB" else "above-U"))
    mon.check(got == exp and not isinstance(got, bool), f"getSize:{fmt}:{where}:words",
              f"{desc}: getSize() of a {fmt} fiber ({where}, {len(rec.coords) if rec else 1} elements, shape "
              f"{rec.shape if rec else 1}) = {got!r}, its layout stores {exp} words")
