"""C10 - value-returning operations never disturb or alias their operands; read-only operations are pure.

Monitor: deep structural snapshots (observe.snap: tree, boxes, object ids, rank lists, rank attributes,
name/colour/mutable, per-fiber active range and own attributes; extended here by the identity of
list-valued rank ids) and identity sets of every mutable object reachable (fibers, coords/payloads
lists, boxes, ranks, rank lists, RankAttrs, default boxes, list-valued rank ids, owners of fibers) taken
around every call of an operation of one of the two families of the statement:

 (A) value-returning: snapshot(operand) identical after the call, identity set of the result disjoint
     from the operand's, then three follow-up mutations of the result (operand snapshot must not move)
     and three of the operand (result snapshot must not move);
 (B) read-only: snapshot of every tensor/fiber involved identical after the call; images rendered
     twice are byte-identical.

Nothing is computed from the functions under test: snapshots and identity sets read raw attributes only.
"""
import contextlib
import copy
import io
import os
import random
import shutil
import tempfile

from fibertree import Fiber, Payload, Tensor
from fibertree.core.rank import Rank
from fibertree.core.rank_attrs import RankAttrs

from fvmon import gen
from fvmon.observe import snap, snap_attrs, unbox

SPEC = {
    "anchors": ["fibertree.core.fiber:Fiber.__deepcopy__", "fibertree.core.fiber:Fiber._splitGeneric", "fibertree.core.fiber:Fiber.mergeRanks", "fibertree.core.fiber:Fiber.getPayload", "fibertree.core.fiber:Fiber._createDefault", "fibertree.core.fiber:Fiber.copy", "fibertree.core.fiber:Fiber.nonEmpty", "fibertree.core.fiber:Fiber.__add__", "fibertree.core.fiber:Fiber.__mul__", "fibertree.core.tensor:Tensor.__deepcopy__", "fibertree.core.tensor:Tensor.setRoot", "fibertree.core.rank_attrs:RankAttrs.getDefault", "fibertree.graphics.tensor_image:TensorImage.__init__", "fibertree.model.format:Format.getSubTree"],
    "rule": ("cases = (i) `val`: one value-returning operation (fiber- and tensor-level splitUniform/"
             "splitNonUniform/splitEqual/splitUnEqual at every depth, `/`, `//`, swizzleRanks, swapRanks, "
             "flattenRanks (tuple/pair/linear; also of an already flattened tensor), unflattenRanks (also after a "
             "double flatten), mergeRanks, Tensor.updateCoords/updatePayloads, Fiber + and * (fiber/fiber, "
             "fiber/scalar, scalar/fiber), Fiber.copy, deepcopy of Fiber/Tensor/Rank/RankAttrs/Payload, nonEmpty, "
             "Tensor.fromFiber on an owned root) applied to a free fiber, a tensor or a tensor-owned (root or "
             "interior) fiber of depth 1-4, canonical or dirty (explicit defaults, empty sub-fibers), default 0 or 7, "
             "C/U rank formats, built from a fiber or - tensors, a quarter of the random ones and 7 of the fixed ones - "
             "by a HISTORY: created empty by Tensor(rank_ids=..) mostly WITHOUT a shape (the ranks then store no shape, "
             "not even an estimate) and filled afterwards by getPayloadRef + `<<=` in a scrambled order or by a "
             "populate loop nest; optionally itself the result of earlier transforms; followed by 3 mutations of the "
             "result and 3 of the operand; systematic sweep = fixed trees x the whole operation catalogue, plus "
             "random cases; (ii) `ro`: a battery of ~150-400 read-only operations (point reads incl. absent and "
             "partial points, positions, slices, every non-Ref iterator and dense co-iterator, & | ^ -, "
             "intersection/union, ==, emptiness/count/shape/depth/rank-id/min/max/active queries, str/repr/"
             "format/print, dump/fiber2dict, uncompress, Format.get*, Compute.numSwaps) on three tensors or free "
             "fibers of the same geometry (same builders, incl. the filled-after-creation tensors), compressed and 'U'-format ranks, plus a flattened (tuple-"
             "coordinate, list-valued rank id) view; (iii) `img`: TensorImage in styles tree / uncompressed / "
             "tree+uncompressed rendered twice on compressed-format tensors of rank 1-3 with missing, stored-empty "
             "and all-default rows inside the upper rank's shape (and the root fiber on its own), then with a "
             "`highlights` argument (1-4 workers named by strings, integers or tuples of integers - also names "
             "whose printed forms coincide -, 0-3 points each: stored leaves, stored sub-tensors, absent points, '?' "
             "wildcards; argument forms dict / dict of single points / list / single point) rendered twice "
             "with equal, freshly built arguments in one style (all three on the hand-written trees), back to back "
             "or with one rendering with other highlights in between.  "
             "Non-trivial = the operand stores at least one element and, for `val`, the operation returned and at "
             "least one follow-up mutation was applied on each side; for `ro` at least 40 operations ran; for `img` "
             "all three styles and the highlighted renderings done.  distinct = distinct case."),
    "shards": {"quick": 16, "thorough": 16},
    "min_counts": {"quick": {"evaluations": 3000, "oracle_evals": 60000, "val_ops_returned": 2500,
                             "alias_checks": 2500, "followup_result_mutations": 5000,
                             "followup_operand_mutations": 5000, "ro_ops": 40000, "img_renders": 400,
                             "img_pairs_compared": 150, "img_hl_renders": 120, "img_hl_pairs_compared": 50,
                             "img_hl_pairs_compared:back-to-back": 20, "img_hl_pairs_compared:interleaved": 20,
                             "img_hl_visible": 80,
                             "img_hl_workers[str]": 40, "img_hl_workers[int]": 30, "img_hl_workers[tuple]": 30,
                             "img_hl_points[stored]": 80, "img_hl_points[partial]": 25,
                             "img_hl_points[absent]": 25, "img_hl_points[wildcard]": 20,
                             "ro:Fiber.iterShape[U]": 40,
                             "ro:Fiber.coiterShape[U]": 40, "ro:Format.getFiber[absent]": 100,
                             "ro:Compute.numSwaps": 80, "ro:Fiber.__or__": 300, "ro:Tensor.dump": 100,
                             "val:Tensor.flattenRanks[flattened operand]": 15,
                             "val:Tensor.unflattenRanks[flattened operand]": 30, "val:deepcopy(Tensor)": 20,
                             "val:Tensor.swizzleRanks": 30, "val:Fiber:fiber+fiber": 40,
                             "val_cases[filled,no shape]": 300, "val_cases[filled:pop]": 80, "val_cases[filled:ref]": 250,
                             "ro_cases[filled,no shape]": 12, "img_cases[filled,no shape]": 3,
                             "ro:Tensor.getShape[rank without a stored shape]": 12,
                             "ro:Fiber.getShape[rank without a stored shape]": 40},
                   "thorough": {"evaluations": 20000, "oracle_evals": 600000, "val_ops_returned": 15000,
                                "ro_ops": 400000, "img_renders": 3000, "img_hl_renders": 1200,
                                "img_hl_pairs_compared": 500, "img_hl_visible": 900,
                                "img_hl_workers[str]": 400, "img_hl_workers[int]": 400,
                                "img_hl_workers[tuple]": 400, "val_cases[filled,no shape]": 3000,
                                "ro_cases[filled,no shape]": 200, "img_cases[filled,no shape]": 40,
                                "ro:Tensor.getShape[rank without a stored shape]": 200}},
    "budget_s": {"quick": 150, "thorough": 900},
    "assumptions": [
        "ordered/unique fibers; integer coordinates (tuple coordinates only as produced by flattenRanks)",
        "saved-position statistics are not part of the snapshot (getPayload/getPosition with start_pos record them)",
        "lazy results of & | ^ - / intersection / union share payload objects with their operands by design "
        "(C04's identity clause): they are driven as read-only operations, not as value-returning ones; the same "
        "holds for slices and f[pos]",
        "immutable values (ints, strings, tuples of ints, the Fiber class used as a default) are not mutable "
        "objects for the aliasing clause; a list-valued rank id is",
        "Tensor.fromFiber is value-returning only for a root that already has an owner (a free root is adopted)",
        "argument domains: split steps/sizes >= 1, `/` needs shape >= 1, `//` a non-empty fiber; halos only with "
        "elements inside the active range; fiber-level swapRanks/unflattenRanks need a non-empty operand "
        "(asserted by the library); flattenRanks styles tuple/pair (linear only with authoritative shapes), "
        "mergeRanks styles tuple/absolute/relative; multi-level flatten/merge only without stored empty fibers, "
        "flatten/merge below the top only when no stored sub-fiber at that level is content-less (updatePayloads "
        "skips those, leaving sub-trees of different depth: C09's); colliding merges (absolute/relative) only "
        "when at most one rank lies below the merged ones (deeper unions meet un-inferable defaults); a two-level unflatten of a doubly flattened "
        "tensor only without authoritative shapes, and Tensor.unflattenRanks only when the flattened rank stores "
        "an element (nested / estimated-as-0 shape bookkeeping: C14's); scalar + and * at leaf-level "
        "fibers only; fiber + fiber on free fibers only up to depth 2 and without stored empty sub-fibers (a free "
        "fiber infers interior defaults one level deep); images of compressed-format tensors only; highlights: worker names are strings, integers or tuples of "
        "integers (no bools), points are tuples of 1..depth integer coordinates or '?' wildcards ('?' only in the "
        "dict-of-lists and list forms: the single-point forms misread a leading character, a documented limitation); "
        "the colour a worker gets is not judged, only that equal arguments give equal images; dense iterators, "
        "uncompress, splits and Format only on integer-coordinate (unflattened) trees; uncompress only on trees "
        "without stored empty fibers (all-default nests raise in _fillempty: C13's); `a - b` only with a "
        "compressed a; numSwaps: depth <= ranks-2, radix int >= 2, latency int ('N' only on compressed ranks)",
        "a follow-up mutation that the library rejects is skipped (counted), not judged",
        "history-built operands are tensors only (a free Fiber() cannot grow below its first level); a populate "
        "history is used for canonical specs only (populate does not store content-less rows)",
        "writing into a box returned by getDefault()/getPayload(absent point) must not reach the tree "
        "(documented: a copy / created but not inserted)",
    ],
}

STYLES = ["tree", "uncompressed", "tree+uncompressed"]


# ------------------------------------------------------------------------------------------
# snapshots and identity sets (raw attributes only)
# ------------------------------------------------------------------------------------------
def _list_ids(v):
    """identity + content of a (nested) list-valued rank id; None for immutable ids."""
    if isinstance(v, list):
        return (id(v), tuple(_list_ids(e) if isinstance(e, list) else repr(e) for e in v))
    return None


def xsnap(x):
    if isinstance(x, Tensor):
        return ("T", snap(x), tuple(_list_ids(rk._attrs.__dict__.get("_id")) for rk in x.ranks), id(x.ranks))
    if isinstance(x, Fiber):
        return ("F", snap(x))
    if isinstance(x, Rank):
        nxt = x.next_rank
        return ("R", id(x), id(x.fibers), tuple(id(f) for f in x.fibers), snap_attrs(x._attrs),
                _list_ids(x._attrs.__dict__.get("_id")), tuple(snap(f) for f in x.fibers),
                xsnap(nxt) if nxt is not None else None)
    if isinstance(x, RankAttrs):
        return ("A", snap_attrs(x), _list_ids(x.__dict__.get("_id")))
    return ("V", snap(x))


def diffkind(s0, s1):
    """Mechanism-level class of a snapshot difference."""
    if s0[0] != s1[0]:
        return "type"
    if s0[0] == "T":
        (r0, k0, n0, c0, m0), (r1, k1, n1, c1, m1) = s0[1], s1[1]
        kinds = []
        if r0 != r1:
            kinds.append("tree")
        if len(k0) != len(k1):
            kinds.append("rank-count")
        else:
            for a, b in zip(k0, k1):
                if a[1] != b[1] and "rank-lists" not in kinds:
                    kinds.append("rank-lists")
                if (a[0], a[2], a[3]) != (b[0], b[2], b[3]) and "rank-attrs" not in kinds:
                    kinds.append("rank-attrs")
        if (n0, c0, m0) != (n1, c1, m1):
            kinds.append("meta")
        if s0[2:] != s1[2:]:
            kinds.append("rankid-list")
        return "+".join(kinds) or "other"
    if s0[0] == "R":
        kinds = []
        if s0[3] != s1[3]:
            kinds.append("rank-lists")
        if s0[4:6] != s1[4:6]:
            kinds.append("rank-attrs")
        if s0[6] != s1[6]:
            kinds.append("tree")
        return "+".join(kinds) or "other"
    return {"F": "tree", "A": "rank-attrs", "V": "value"}.get(s0[0], "other")


def alias_class(labels):
    """One coarse class per aliasing witness (the most structural kind of object shared)."""
    ls = set(labels)
    if ls & {"fiber", "coords-list", "payloads-list", "rank", "rank-fibers-list", "tensor", "tensor-ranks-list"}:
        return "structure"
    if ls & {"rankattrs", "fiber-rankattrs", "rank-default-box", "shape-list"}:
        return "rank-attrs"
    if "rankid-list" in ls:
        return "rankid-list"
    return "leaf-boxes"


def _add(out, obj, label):
    if id(obj) in out:
        return False
    out[id(obj)] = (label, obj)         # keeps the object alive: ids cannot be recycled
    return True


def _ids_list(v, out, label):
    if isinstance(v, list) and _add(out, v, label):
        for e in v:
            _ids_list(e, out, label)


def _ids_box(p, out, label="box"):
    if not _add(out, p, label):
        return
    v = p.value
    if isinstance(v, Fiber):
        _ids_fiber(v, out)
    elif isinstance(v, (tuple, list)):
        for e in v:
            if isinstance(e, Payload):
                _ids_box(e, out)
            elif isinstance(e, Fiber):
                _ids_fiber(e, out)


def _ids_attrs(a, out, label="rankattrs"):
    if not _add(out, a, label):
        return
    d = a.__dict__.get("_default")
    if isinstance(d, Payload):
        _ids_box(d, out, "rank-default-box")
    elif isinstance(d, Fiber):
        _ids_fiber(d, out)
    _ids_list(a.__dict__.get("_id"), out, "rankid-list")
    _ids_list(a.__dict__.get("_shape"), out, "shape-list")


def _ids_rank(rk, out):
    if not _add(out, rk, "rank"):
        return
    _add(out, rk.fibers, "rank-fibers-list")
    _ids_attrs(rk._attrs, out)
    for f in rk.fibers:
        _ids_fiber(f, out)
    if rk.next_rank is not None:
        _ids_rank(rk.next_rank, out)


def _ids_fiber(f, out):
    if not _add(out, f, "fiber"):
        return
    _add(out, f.coords, "coords-list")
    _add(out, f.payloads, "payloads-list")
    ra = f.__dict__.get("_rank_attrs")
    if ra is not None:
        _ids_attrs(ra, out, "fiber-rankattrs")
    own = f.__dict__.get("_owner")
    if own is not None:
        _ids_rank(own, out)
    for p in f.payloads:
        if isinstance(p, Fiber):
            _ids_fiber(p, out)
        elif isinstance(p, Payload):
            _ids_box(p, out)


def xids(x, out=None):
    """{id: (label, object)} of every mutable object reachable from x."""
    if out is None:
        out = {}
    if isinstance(x, Tensor):
        _add(out, x, "tensor")
        _add(out, x.ranks, "tensor-ranks-list")
        for rk in x.ranks:
            _ids_rank(rk, out)
        root = x.__dict__.get("_root")
        if isinstance(root, Fiber):
            _ids_fiber(root, out)
        elif isinstance(root, Payload):
            _ids_box(root, out)
    elif isinstance(x, Fiber):
        _ids_fiber(x, out)
    elif isinstance(x, Rank):
        _ids_rank(x, out)
    elif isinstance(x, RankAttrs):
        _ids_attrs(x, out)
    elif isinstance(x, Payload):
        _ids_box(x, out)
    return out


# ------------------------------------------------------------------------------------------
# raw tree helpers
# ------------------------------------------------------------------------------------------
def root_of(x):
    if isinstance(x, Tensor):
        r = x.__dict__.get("_root")
        return r if isinstance(r, Fiber) else None
    return x if isinstance(x, Fiber) else None


def fibers_by_level(root):
    levels = []

    def walk(f, d):
        while len(levels) <= d:
            levels.append([])
        levels[d].append(f)
        for p in f.payloads:
            if isinstance(p, Fiber):
                walk(p, d + 1)
    if root is not None:
        walk(root, 0)
    return levels


def leaf_paths(root):
    """[(coordinate path, box)] of every stored leaf box."""
    out = []

    def walk(f, path):
        for c, p in zip(f.coords, f.payloads):
            if isinstance(p, Fiber):
                walk(p, path + (c,))
            elif isinstance(p, Payload):
                out.append((path + (c,), p))
    if root is not None:
        walk(root, ())
    return out


def has_empty_fiber(root):
    return any(len(f.coords) == 0 for lv in fibers_by_level(root) for f in lv)


def int_coords(root):
    return all(isinstance(c, int) and not isinstance(c, bool) for lv in fibers_by_level(root) for f in lv for c in f.coords)


def raw_depth(x):
    if isinstance(x, Tensor):
        return len(x.ranks)
    return len(fibers_by_level(x)) if isinstance(x, Fiber) else 0


def has_content(f, default):
    for p in f.payloads:
        if isinstance(p, Fiber):
            if has_content(p, default):
                return True
        elif unbox(p) != default:
            return True
    return False


def pick(root, path, want_level=False):
    f = root
    lvl = 0
    for i in path:
        subs = [p for p in f.payloads if isinstance(p, Fiber)]
        if not subs:
            break
        f = subs[i % len(subs)]
        lvl += 1
    return (f, lvl) if want_level else f


def bump(c, by=1):
    if isinstance(c, tuple):
        return c[:-1] + (bump(c[-1], by),)
    return c + by


# ------------------------------------------------------------------------------------------
# building operands
# ------------------------------------------------------------------------------------------
def build(cfg, spec=None):
    """-> (tensor or None, root fiber)"""
    spec = cfg["spec"] if spec is None else spec
    d = cfg["default"]
    if cfg["own"] == "free":
        return None, gen.fiber_from_spec(spec, d, shape=cfg.get("shape"))
    ids = gen.rank_ids_for(cfg["depth"])
    if cfg.get("build"):
        t = filled_tensor(spec, ids, cfg.get("shape"), d, cfg.get("fmts"), cfg.get("name") or "", cfg.get("mutable"),
                          cfg["build"])
        return t, t.getRoot()
    t = gen.tensor_from_spec(spec, ids, shape=cfg.get("shape"), default=d, fmts=cfg.get("fmts"),
                             name=cfg.get("name") or "", mutable=cfg.get("mutable"))
    return t, t.getRoot()


def _spec_items(spec, path=()):
    """[(coordinate path, value | None)] of a tree spec: stored leaves, and (value None) stored empty fibers"""
    out = []
    for c, sub in spec:
        if isinstance(sub, list):
            if sub:
                out += _spec_items(sub, path + (c,))
            else:
                out.append((path + (c,), None))
        else:
            out.append((path + (c,), sub))
    return out


def _populate(zf, af):
    for _, (zr, ar) in zf << af:
        if isinstance(ar, Fiber):
            _populate(zr, ar)
        else:
            zr <<= unbox(ar)


def filled_tensor(spec, ids, shape, default, fmts, name, mutable, how):
    """A tensor with a history: created EMPTY by the public constructor (with or without a shape - without one
    the ranks hold no shape at all, not even an estimate) and filled afterwards, the way a kernel output is:
    `ref`  = one getPayloadRef + `<<=` per stored leaf, in a scrambled order (a partial point stores an empty fiber);
    `pop`  = a populate loop nest (`z << a`) from a source tensor holding the spec."""
    kw = {"name": name} if name else {}
    if shape:
        kw["shape"] = list(shape)
    t = Tensor(rank_ids=list(ids), default=default, **kw)
    if fmts:
        for r, fm in zip(ids, fmts):
            if fm != "C":
                t.setFormat(r, fm)
    if how == "pop":
        a = gen.tensor_from_spec(spec, ids, default=default)
        _populate(t.getRoot(), a.getRoot())
    else:
        items = _spec_items(spec)
        random.Random(len(items) * 31 + len(ids)).shuffle(items)
        for path, v in items:
            ref = t.getPayloadRef(*path)
            if v is not None:
                ref <<= v
    if mutable is not None:
        t.setMutable(mutable)
    return t


UPD_COORDS = {"shift": lambda i, c, p: c + 1, "rev": lambda i, c, p: 50 - c, "same": lambda i, c, p: c}
UPD_PAYLOADS = {"same": lambda i, c, p: p,
                "double": lambda i, c, p: p if isinstance(p, Fiber) else unbox(p) * 2,
                "const": lambda i, c, p: p if isinstance(p, Fiber) else 5,
                "box": lambda i, c, p: p if isinstance(p, Fiber) else Payload(unbox(p) + 1)}
MERGE_FNS = {"sum": None, "first": lambda ps: ps[0]}


def apply_op(op, target, other=None):
    """Run one value-returning operation of the catalogue on `target`."""
    n, a = op["name"], op.get("args", {})
    if n in ("splitUniform", "splitEqual"):
        kw = {k: a[k] for k in ("relativeCoords", "pre_halo", "post_halo") if k in a}
        if "rankid" in a:
            kw["rankid"] = a["rankid"]
        else:
            kw["depth"] = a.get("depth", 0)
        return getattr(target, n)(a["step"], **kw)
    if n in ("splitNonUniform", "splitUnEqual"):
        kw = {k: a[k] for k in ("relativeCoords", "pre_halo", "post_halo") if k in a}
        if "rankid" in a:
            kw["rankid"] = a["rankid"]
        else:
            kw["depth"] = a.get("depth", 0)
        return getattr(target, n)(list(a["parts"]), **kw)
    if n == "truediv":
        return target / a["n"]
    if n == "floordiv":
        return target // a["n"]
    if n == "swizzleRanks":
        return target.swizzleRanks(list(a["order"]))
    if n == "swapRanks":
        return target.swapRanks(a["depth"]) if isinstance(target, Tensor) else target.swapRanks()
    if n == "flattenRanks":
        if isinstance(target, Tensor):
            return target.flattenRanks(depth=a["depth"], levels=a["levels"], coord_style=a.get("style", "tuple"))
        return target.flattenRanks(depth=a["depth"], levels=a["levels"], style=a.get("style", "tuple"))
    if n == "mergeRanks":
        fn = MERGE_FNS[a.get("fn", "sum")]
        if isinstance(target, Tensor):
            return target.mergeRanks(depth=a["depth"], levels=a["levels"], coord_style=a.get("style", "tuple"), merge_fn=fn)
        return target.mergeRanks(depth=a["depth"], levels=a["levels"], style=a.get("style", "tuple"), merge_fn=fn)
    if n == "unflattenRanks":
        if isinstance(target, Tensor):
            return target.unflattenRanks(depth=a["depth"], levels=a["levels"])
        return target.unflattenRanks(levels=a["levels"])
    if n == "updateCoords":
        return target.updateCoords(UPD_COORDS[a["fn"]], depth=a["depth"])
    if n == "updatePayloads":
        return target.updatePayloads(UPD_PAYLOADS[a["fn"]], depth=a["depth"])
    if n == "add_ff":
        return target + other
    if n == "mul_ff":
        return target * other
    if n == "add_fs":
        return target + a["s"]
    if n == "add_sf":
        return a["s"] + target
    if n == "mul_fs":
        return target * a["s"]
    if n == "mul_sf":
        return a["s"] * target
    if n == "copy":
        return target.copy(preserve_owner=a.get("preserve_owner", True))
    if n == "deepcopy":
        return copy.deepcopy(target)
    if n == "nonEmpty":
        return target.nonEmpty()
    if n == "fromFiber":
        ids = a.get("rank_ids")
        return Tensor.fromFiber(rank_ids=list(ids) if ids else None, fiber=target, shape=a.get("shape"),
                                default=a.get("default", 0), **({"name": a["name"]} if a.get("name") else {}))
    raise ValueError(n)


# ------------------------------------------------------------------------------------------
# catalogue of value-returning operations for a tree configuration
# ------------------------------------------------------------------------------------------
def _split_variants(rng, lvl, depths, rank_ids=None, halos=True):
    out = []
    for d in depths:
        where = {"depth": d}
        if rank_ids is not None and rng.random() < 0.4:
            where = {"rankid": rank_ids[d]}
        h = {}
        if halos and rng.random() < 0.3:
            h = {"pre_halo": rng.randint(0, 2), "post_halo": rng.randint(0, 2)}
        rel = {"relativeCoords": True} if rng.random() < 0.3 else {}
        out.append({"name": "splitUniform", "level": lvl, "args": dict(where, step=rng.randint(1, 4), **h, **rel)})
        out.append({"name": "splitEqual", "level": lvl, "args": dict(where, step=rng.randint(1, 3), **h, **rel)})
        cuts = sorted(rng.sample(range(0, 7), rng.randint(1, 3)))
        out.append({"name": "splitNonUniform", "level": lvl, "args": dict(where, parts=cuts, **rel)})
        out.append({"name": "splitUnEqual", "level": lvl, "args": dict(where, parts=[rng.randint(1, 3) for _ in range(rng.randint(1, 3))], **rel)})
    return out


def catalogue(rng, cfg):
    """Every operation variant applicable to `cfg` (arguments drawn from rng)."""
    D = cfg["depth"]
    own = cfg["own"]
    ops = []
    auth = bool(cfg.get("shape"))
    if own == "tensor":
        ids = gen.rank_ids_for(D)
        ops += _split_variants(rng, "T", range(D), ids)
        ops.append({"name": "truediv", "level": "T", "args": {"n": rng.randint(1, 3)}})
        ops.append({"name": "floordiv", "level": "T", "args": {"n": rng.randint(1, 3)}})
        if D >= 2:
            perm = list(ids)
            while perm == ids:
                rng.shuffle(perm)
            ops.append({"name": "swizzleRanks", "level": "T", "args": {"order": perm}})
            ops.append({"name": "swizzleRanks", "level": "T", "args": {"order": list(ids)}})
            for d in range(D - 1):
                ops.append({"name": "swapRanks", "level": "T", "args": {"depth": d}})
                for lv in range(1, D - d):
                    styles = ["tuple", "pair"] + (["linear"] if auth else [])
                    ops.append({"name": "flattenRanks", "level": "T",
                                "args": {"depth": d, "levels": lv, "style": rng.choice(styles)}})
                    ops.append({"name": "unflattenRanks", "level": "T", "args": {"depth": d, "levels": lv},
                                "prep": [{"name": "flattenRanks", "level": "T", "args": {"depth": d, "levels": lv, "style": "tuple"}}]})
                ops.append({"name": "mergeRanks", "level": "T",
                            "args": {"depth": d, "levels": 1, "style": rng.choice(["tuple", "absolute", "relative"]),
                                     "fn": rng.choice(["sum", "first"])}})
        if D >= 3:
            f01 = {"name": "flattenRanks", "level": "T", "args": {"depth": 0, "levels": 1, "style": "tuple"}}
            f11 = {"name": "flattenRanks", "level": "T", "args": {"depth": 1, "levels": 1, "style": "tuple"}}
            # flatten of an already flattened tensor: list id + plain id, plain id + list id
            ops.append(dict(f01, prep=[f01]))
            ops.append(dict(f01, prep=[f11]))
            ops.append({"name": "unflattenRanks", "level": "T", "args": {"depth": 0, "levels": 1}, "prep": [f01, f01]})
            if not auth:
                # with authoritative shapes the doubly flattened shape is nested ((a, b), c) while the
                # coordinates are flat: a two-level unflatten then raises (shape bookkeeping: C14's)
                ops.append({"name": "unflattenRanks", "level": "T", "args": {"depth": 0, "levels": 2}, "prep": [f01, f01]})
            ops.append({"name": "swizzleRanks", "level": "T", "args": {"order": [ids[-1]] + ids[:-1]},
                        "prep": [{"name": "splitUniform", "level": "T", "args": {"depth": 0, "step": 2}}], "reids": True})
        if D >= 4:
            f01 = {"name": "flattenRanks", "level": "T", "args": {"depth": 0, "levels": 1, "style": "tuple"}}
            f11 = {"name": "flattenRanks", "level": "T", "args": {"depth": 1, "levels": 1, "style": "tuple"}}
            ops.append(dict(f01, prep=[f01, f11]))          # list id + list id
        for d in range(D):
            ops.append({"name": "updateCoords", "level": "T", "args": {"depth": d, "fn": rng.choice(["shift", "rev", "same"])}})
            ops.append({"name": "updatePayloads", "level": "T",
                        "args": {"depth": d, "fn": rng.choice(["same", "double", "const", "box"]) if d == D - 1 else "same"}})
        ops.append({"name": "deepcopy", "level": "T", "args": {}})
        for i in range(D):
            ops.append({"name": "deepcopy", "level": "rank", "args": {"i": i}})
            ops.append({"name": "deepcopy", "level": "attrs", "args": {"i": i}})
        ops.append({"name": "deepcopy", "level": "box", "args": {"k": rng.randrange(16)}})
        ops.append({"name": "deepcopy", "level": "rankdefault", "args": {}})
        ops.append({"name": "fromFiber", "level": "F", "path": [],
                    "args": {"rank_ids": ids, "default": cfg["default"], "shape": cfg.get("shape"), "name": "Z"}})
        ops.append({"name": "fromFiber", "level": "F", "path": [],
                    "args": {"rank_ids": [f"X{i}" for i in range(D)], "default": cfg["default"]}})
    # fiber-level operations on the root and on interior fibers (free or owned)
    paths = [[]] + ([[rng.randrange(8)]] if D >= 2 else []) + ([[rng.randrange(8), rng.randrange(8)]] if D >= 3 else [])
    for path in paths:
        rem = D - len(path)            # depth of the sub-tree below the target
        ops += _split_variants(rng, "F", range(rem), None, halos=True)
        for o in ops[-4 * rem:]:
            o["path"] = path
        ops.append({"name": "truediv", "level": "F", "path": path, "args": {"n": rng.randint(1, 3)}})
        ops.append({"name": "floordiv", "level": "F", "path": path, "args": {"n": rng.randint(1, 3)}})
        if rem >= 2:
            ops.append({"name": "swapRanks", "level": "F", "path": path, "args": {}})
            for d in range(rem - 1):
                for lv in range(1, rem - d):
                    ops.append({"name": "flattenRanks", "level": "F", "path": path,
                                "args": {"depth": d, "levels": lv, "style": rng.choice(["tuple", "pair"])}})
                ops.append({"name": "mergeRanks", "level": "F", "path": path,
                            "args": {"depth": d, "levels": 1, "style": rng.choice(["tuple", "absolute", "relative"]),
                                     "fn": rng.choice(["sum", "first"])}})
            ops.append({"name": "add_ff", "level": "F", "path": path, "args": {}})
            ops.append({"name": "mul_ff", "level": "F", "path": path, "args": {}})
        ops.append({"name": "copy", "level": "F", "path": path, "args": {"preserve_owner": True}})
        ops.append({"name": "copy", "level": "F", "path": path, "args": {"preserve_owner": False}})
        ops.append({"name": "deepcopy", "level": "F", "path": path, "args": {}})
        ops.append({"name": "nonEmpty", "level": "F", "path": path, "args": {}})
    leafpath = [rng.randrange(8) for _ in range(D - 1)]
    for n in ("add_ff", "mul_ff", "add_fs", "add_sf", "mul_fs", "mul_sf"):
        ops.append({"name": n, "level": "F", "path": leafpath, "args": {"s": rng.choice([2, 3, -1, 1, 0])}})
    if own == "tensor" and D >= 2:
        # fiber-level unflatten of the (owned) root of a flattened tensor
        ops.append({"name": "unflattenRanks", "level": "F", "path": [], "args": {"levels": 1},
                    "prep": [{"name": "flattenRanks", "level": "T", "args": {"depth": 0, "levels": 1, "style": "tuple"}}]})
    if own == "free" and D >= 2:
        ops.append({"name": "unflattenRanks", "level": "F", "path": [], "args": {"levels": 1},
                    "prep": [{"name": "flattenRanks", "level": "F", "path": [], "args": {"depth": 0, "levels": 1, "style": "tuple"}}]})
    return ops


MUT_KINDS = ["leaf", "insert", "rankattr", "reflatten", "name", "append"]


def _muts(rng):
    return [{"m": rng.choice(MUT_KINDS), "seed": rng.randrange(1 << 16)} for _ in range(3)]


# ------------------------------------------------------------------------------------------
# fixed trees of the systematic sweep
# ------------------------------------------------------------------------------------------
def fixed_cfgs():
    out = []
    for default in (0, 7):
        d = default
        v = [1, 2, 3, 5, 4, 6]
        trees = {
            1: {"canon": [[0, v[0]], [2, v[1]], [5, v[2]]],
                "dirty": [[0, v[0]], [1, d], [3, v[3]], [4, d]]},
            2: {"canon": [[0, [[0, v[0]], [2, v[1]]]], [2, [[1, v[2]], [3, v[3]]]], [3, [[0, v[4]]]]],
                "dirty": [[0, [[0, v[0]], [1, d], [3, v[1]]]], [1, []], [2, [[2, d]]], [4, [[0, v[2]], [2, v[3]]]]]},
            3: {"canon": [[0, [[0, [[1, v[0]], [2, v[1]]]], [2, [[0, v[2]]]]]], [1, [[1, [[0, v[3]], [3, v[4]]]]]]],
                "dirty": [[0, [[0, [[1, v[0]], [2, d]]], [1, []], [2, [[0, v[2]]]]]], [1, []],
                          [2, [[1, [[0, d]]], [3, [[1, v[3]], [2, v[4]]]]]]]},
            4: {"canon": [[0, [[0, [[0, [[1, v[0]], [2, v[1]]]], [1, [[0, v[2]]]]]], [1, [[1, [[2, v[3]]]]]]]],
                          [1, [[0, [[1, [[0, v[4]], [1, v[5]]]]]]]]],
                "dirty": [[0, [[0, [[0, [[1, v[0]], [2, d]]], [1, []]]], [1, [[1, [[2, v[3]]]]]]]], [1, []],
                          [2, [[0, [[1, [[0, v[4]], [1, v[5]]]], [2, [[0, d]]]]]]]]},
        }
        ext = {1: [6], 2: [5, 4], 3: [3, 4, 4], 4: [3, 2, 3, 3]}
        for depth in (1, 2, 3, 4):
            for flavour in ("canon", "dirty"):
                for own in ("tensor", "free"):
                    if own == "free" and depth == 4:
                        continue
                    for shaped in (True, False):
                        if default == 7 and not shaped and flavour == "canon":
                            continue
                        cfg = {"own": own, "depth": depth, "ext": ext[depth], "default": default,
                               "spec": trees[depth][flavour], "shape": [e + 1 for e in ext[depth]] if shaped else None,
                               "flavour": flavour}
                        if own == "tensor":
                            cfg["fmts"] = (["C"] * depth) if shaped or flavour == "canon" else (["U"] + ["C"] * (depth - 1))
                            cfg["name"] = "A" if shaped else ""
                            cfg["mutable"] = True if flavour == "dirty" else None
                        out.append(cfg)
                        # the same tree as the output of a history: created empty and filled afterwards; without a
                        # shape the ranks then hold no shape at all (a from-fiber tensor holds an estimate)
                        if own == "tensor" and depth <= 3 and not shaped and (default == 0 or depth == 2):
                            out.append(dict(cfg, build="pop" if flavour == "canon" else "ref"))
    return out


def rand_cfg(rng, own=None, depths=None, filled_rng=None):
    """filled_rng: own stream deciding whether the tensor is built by a fill history (keeps the main stream as is)"""
    own = own or rng.choice(["tensor", "tensor", "tensor", "free"])
    depth = rng.choice(depths or ([1, 2, 2, 3, 3, 4] if own == "tensor" else [1, 2, 2, 3]))
    ext = [rng.randint(2, 5) for _ in range(depth)]
    default = rng.choice([0, 0, 7, 0.5])       # a non-int default too: its box is not made by the int fast path of getDefault()
    dirty = rng.choice([0.0, 0.4, 0.7])
    spec = gen.rand_tree_spec(rng, ext, rng.choice([0.5, 0.7, 0.9]), dirty, default)
    cfg = {"own": own, "depth": depth, "ext": ext, "default": default, "spec": spec,
           "shape": [e + rng.choice([0, 0, 2]) for e in ext] if rng.random() < 0.7 else None,
           "flavour": "dirty" if dirty else "canon"}
    if own == "tensor":
        cfg["fmts"] = [rng.choice("CCCU") for _ in range(depth)]
        cfg["name"] = rng.choice(["", "A", "T1"])
        cfg["mutable"] = rng.choice([None, True, False])
        if filled_rng is not None and filled_rng.random() < 0.25:
            # created empty (mostly without a shape) and filled afterwards
            cfg["build"] = "pop" if not dirty and filled_rng.random() < 0.5 else "ref"
            if filled_rng.random() < 0.75:
                cfg["shape"] = None
    return cfg


def _spec_like(rng, cfg):
    return gen.rand_tree_spec(rng, cfg["ext"], rng.choice([0.4, 0.7]), 0.4 if cfg["flavour"] == "dirty" else 0.0, cfg["default"])


# ------------------------------------------------------------------------------------------
# generation
# ------------------------------------------------------------------------------------------
def generate(rng, tier, shard, nshards, mon):
    idx = 0
    # (i) systematic: fixed trees x whole catalogue
    for ci, cfg in enumerate(fixed_cfgs()):
        crng = random.Random(1000 + ci)
        ops = catalogue(crng, cfg)
        spec2 = _spec_like(crng, cfg)
        for oi, op in enumerate(ops):
            if idx % nshards == shard:
                mrng = random.Random(ci * 1000 + oi)
                yield {"kind": "val", "cfg": cfg, "spec2": spec2, "op": op, "mres": _muts(mrng), "mop": _muts(mrng), "sys": True}
            idx += 1
    mon.exhaustive["fixed-trees-x-catalogue"] = True
    # (ii) systematic read-only batteries and images on the fixed trees
    for ci, cfg in enumerate(fixed_cfgs()):
        if idx % nshards == shard:
            crng = random.Random(5000 + ci)
            yield _ro_case(crng, cfg)
        idx += 1
        if cfg["own"] == "tensor" and cfg["depth"] <= 3 and "U" not in cfg["fmts"]:
            if idx % nshards == shard:
                yield {"kind": "img", "cfg": cfg, "sys": True, "hl": _img_highlights(f"sys:{ci}", cfg, False)}
            idx += 1
    for k, cfg in enumerate(_img_fixed()):
        if idx % nshards == shard:
            yield {"kind": "img", "cfg": cfg, "sys": True, "hl": _img_highlights(f"fixed:{k}", cfg, True)}
        idx += 1
    mon.exhaustive["fixed-trees-ro+img"] = True
    # (iii) random
    nval, nro, nimg = ((3600, 256, 80) if tier == "quick" else (60000, 5000, 1800))
    sched = ["val"] * 25 + ["ro"] * 2 + ["img"]
    frng = random.Random(rng.getrandbits(32))
    n = (nval + nro + nimg) // nshards
    quota = {"val": nval // nshards, "ro": nro // nshards, "img": nimg // nshards}
    for i in range(n * 2):
        kind = sched[i % len(sched)]
        if quota[kind] <= 0:
            if not any(v > 0 for v in quota.values()):
                break
            continue
        quota[kind] -= 1
        if kind == "val":
            cfg = rand_cfg(rng, filled_rng=frng)
            ops = catalogue(rng, cfg)
            yield {"kind": "val", "cfg": cfg, "spec2": _spec_like(rng, cfg), "op": rng.choice(ops),
                   "mres": _muts(rng), "mop": _muts(rng)}
        elif kind == "ro":
            yield _ro_case(rng, rand_cfg(rng, filled_rng=frng))
        else:
            cfg = _img_cfg(rng, frng)
            yield {"kind": "img", "cfg": cfg, "hl": _img_highlights(f"rand:{i}", cfg, False)}


def _ro_case(rng, cfg):
    D = cfg["depth"]
    pts = [[rng.randint(0, e + 1) for e in cfg["ext"]] for _ in range(6)]
    fspec = {}
    if cfg["own"] == "tensor":
        for r in gen.rank_ids_for(D):
            fspec[r] = {"format": rng.choice("CU"), "rhbits": rng.randint(0, 9), "fhbits": rng.randint(0, 9),
                        "cbits": rng.randint(0, 9), "pbits": rng.randint(0, 9)}
        if rng.random() < 0.5:
            fspec["root"] = {"hbits": 3, "pbits": 4}
    return {"kind": "ro", "cfg": cfg, "spec2": _spec_like(rng, cfg), "spec3": _spec_like(rng, cfg), "pts": pts,
            "fspec": fspec, "radix": rng.choice([2, 3, 4]), "latency": rng.choice([1, 2, "N"]),
            "rng": [rng.randint(0, 3), rng.randint(2, 7), rng.choice([1, 1, 2])]}


def _img_fixed():
    out = []
    # all-zero / missing / empty rows inside the upper rank's shape
    out.append({"own": "tensor", "depth": 2, "ext": [4, 4], "default": 0, "shape": [4, 4], "flavour": "canon",
                "spec": [[0, [[0, 1], [3, 2]]], [3, [[1, 5]]]], "fmts": ["C", "C"], "name": "A", "mutable": None})
    out.append({"own": "tensor", "depth": 2, "ext": [4, 3], "default": 0, "shape": [5, 4], "flavour": "dirty",
                "spec": [[0, [[0, 1]]], [1, []], [2, [[0, 0], [2, 0]]], [4, [[3, 7]]]], "fmts": ["C", "C"], "name": "", "mutable": True})
    out.append({"own": "tensor", "depth": 2, "ext": [3, 3], "default": 0, "shape": None, "flavour": "canon",
                "spec": [[0, [[1, 1]]], [2, [[0, 2], [2, 3]]]], "fmts": ["C", "C"], "name": "B", "mutable": None})
    out.append({"own": "tensor", "depth": 3, "ext": [3, 3, 3], "default": 0, "shape": [3, 4, 3], "flavour": "canon",
                "spec": [[0, [[0, [[0, 1]]], [3, [[2, 2]]]]], [2, [[1, [[1, 3], [2, 4]]]]]], "fmts": ["C", "C", "C"],
                "name": "C", "mutable": None})
    out.append({"own": "tensor", "depth": 3, "ext": [2, 3, 3], "default": 0, "shape": [3, 3, 3], "flavour": "dirty",
                "spec": [[0, []], [2, [[0, []], [2, [[1, 0]]]]]], "fmts": ["C", "C", "C"], "name": "", "mutable": None})
    out.append({"own": "tensor", "depth": 1, "ext": [5], "default": 0, "shape": [6], "flavour": "dirty",
                "spec": [[1, 4], [2, 0], [4, 9]], "fmts": ["C"], "name": "V", "mutable": None})
    out.append({"own": "tensor", "depth": 2, "ext": [3, 3], "default": 0, "shape": [4, 4], "flavour": "canon",
                "spec": [], "fmts": ["C", "C"], "name": "E", "mutable": None})
    out.append({"own": "tensor", "depth": 2, "ext": [3, 3], "default": 7, "shape": [4, 4], "flavour": "canon",
                "spec": [[1, [[0, 1], [2, 2]]], [3, [[3, 4]]]], "fmts": ["C", "C"], "name": "D7", "mutable": None})
    return out


def _img_cfg(rng, frng=None):
    cfg = rand_cfg(rng, own="tensor", depths=[1, 2, 2, 2, 3, 3], filled_rng=frng)
    cfg["fmts"] = ["C"] * cfg["depth"]
    if rng.random() < 0.8 and cfg["shape"] is None and not (cfg.get("build") and frng.random() < 0.6):
        cfg["shape"] = [e + rng.choice([0, 1, 2]) for e in cfg["ext"]]
    if cfg["depth"] >= 2 and rng.random() < 0.6:
        # guarantee rows that are missing / stored empty / all explicit default inside the upper rank's shape
        spec = [e for e in cfg["spec"] if e[0] != 1]
        r = rng.random()
        if r < 0.35:
            sub = []
        elif r < 0.7:
            sub = None
        else:
            sub = [[0, cfg["default"]]] if cfg["depth"] == 2 else [[0, []]]
        if sub is not None:
            spec.append([1, sub])
        cfg["spec"] = sorted(spec, key=lambda e: e[0])
        if sub is not None and cfg.get("build"):
            cfg["build"] = "ref"            # a populate loop nest would not store the content-less row
    return cfg


# highlights: worker -> points.  Worker names ("spacestamps": any hashable) are drawn from strings, integers and
# tuples of integers, deliberately including names whose printed forms coincide ("0" / 0, "(0, 1)" / (0, 1)).
HL_WORKERS = {"str": ["PE", "PE0", "PE1", "w", "0", "(0, 1)"],
              "int": [0, 1, 2, 3, 7, 12],
              "tuple": [[0], [1], [0, 0], [0, 1], [1, 0], [2, 3, 1]]}
HL_PROFILES = ["str", "int", "tuple", "mixed"]
HL_FORMS = ["dict"] * 7 + ["dict1", "list", "point"]


def _spec_nodes(spec):
    """-> (paths of stored leaves, paths of stored sub-fibers) of a tree spec"""
    leaves, inner = [], []

    def walk(s, path):
        for c, sub in s:
            if isinstance(sub, list):
                inner.append(path + [c])
                walk(sub, path + [c])
            else:
                leaves.append(path + [c])
    walk(spec, [])
    return leaves, inner


def _point_class(spec, point):
    """stored (a stored leaf) / partial (a stored sub-fiber: whole sub-tensor) / absent / wildcard - from the spec"""
    if "?" in point:
        return "wildcard"
    s = spec
    for k, c in enumerate(point):
        if not isinstance(s, list):
            return "absent"
        nxt = [sub for cc, sub in s if cc == c]
        if not nxt:
            return "absent"
        s = nxt[0]
    return "partial" if isinstance(s, list) else "stored"


def _img_highlights(seed, cfg, all_styles):
    """The highlighted part of one image case (own generator: does not disturb the case stream): the styles to
    render in and 1 or 2 configurations = form of the `highlights` argument + [[worker, [point..]]..].  The first
    configuration is rendered twice, the second (if any) once in between."""
    hrng = random.Random(f"hl:{seed}:{cfg['ext']}:{cfg['spec']}")
    n = hrng.choice([1, 2])
    leaves, inner = _spec_nodes(cfg["spec"])
    D = cfg["depth"]
    out = []
    profiles = hrng.sample(HL_PROFILES, len(HL_PROFILES))
    for k in range(n):
        prof = profiles[k % len(profiles)]
        form = hrng.choice(HL_FORMS)
        nw = hrng.choice([1, 1, 2, 2, 3, 4]) if form in ("dict", "dict1") else 1
        if form in ("list", "point"):
            names = ["PE"]                        # the documented implicit worker of the worker-less forms
        elif prof == "mixed":
            pool = [w for v in HL_WORKERS.values() for w in v]
            names = hrng.sample(pool, nw)
        else:
            names = hrng.sample(HL_WORKERS[prof], nw)
        workers = []
        for w in names:
            npts = 1 if form in ("dict1", "point") else hrng.choice([0, 1, 1, 2, 2, 3])
            pts = []
            for _ in range(npts):
                r = hrng.random()
                if leaves and r < 0.5:
                    pt = list(hrng.choice(leaves))
                elif (inner or leaves) and r < 0.65:
                    pt = list(hrng.choice(inner or leaves))
                    pt = pt[:hrng.randint(1, len(pt))]
                elif leaves and r < 0.8 and form in ("dict", "list"):
                    pt = list(hrng.choice(leaves))
                    pt[hrng.randrange(len(pt))] = "?"
                else:
                    pt = [hrng.randint(0, e + 2) for e in cfg["ext"][:hrng.randint(1, D)]]
                pts.append(pt)
            workers.append([w, pts])
        out.append({"form": form, "w": workers})
    # the combined style costs as much as the two others together: drawn less often
    return {"styles": list(STYLES) if all_styles else [hrng.choice(STYLES + STYLES[:2])], "confs": out}


def _hl_arg(conf):
    """a fresh `highlights` argument (equal at every call) in the configuration's form"""
    def name(w):
        return tuple(w) if isinstance(w, list) else w
    ws = conf["w"]
    if conf["form"] == "dict":
        return {name(w): [tuple(p) for p in pts] for w, pts in ws}
    if conf["form"] == "dict1":
        return {name(w): tuple(pts[0]) for w, pts in ws}
    if conf["form"] == "list":
        return [tuple(p) for p in ws[0][1]]
    return tuple(ws[0][1][0])


def _worker_kind(w):
    return "tuple" if isinstance(w, (list, tuple)) else "str" if isinstance(w, str) else "int"


# ------------------------------------------------------------------------------------------
# follow-up mutations
# ------------------------------------------------------------------------------------------
def _coord_example(levels, d):
    for f in levels[d] if d < len(levels) else []:
        if f.coords:
            return f.coords[-1]
    return None


def mutate(x, desc):
    """Apply one public mutation to x (Tensor, Fiber, Rank, RankAttrs or Payload).  Returns the kind actually
    applied, or None.  Kinds fall back to the next applicable one."""
    r = random.Random(desc["seed"])
    order = MUT_KINDS[MUT_KINDS.index(desc["m"]):] + MUT_KINDS[:MUT_KINDS.index(desc["m"])]
    if isinstance(x, Payload):
        x <<= 900 + r.randrange(50)
        return "leaf"
    if isinstance(x, RankAttrs):
        return _mutate_attrs(x, r, leaf=not (isinstance(x.__dict__.get("_default"), type)))
    if isinstance(x, Rank):
        if x.fibers and r.random() < 0.5:
            lp = leaf_paths(x.fibers[r.randrange(len(x.fibers))])
            if lp:
                box = lp[r.randrange(len(lp))][1]
                box <<= 900 + r.randrange(50)
                return "leaf"
        return _mutate_attrs(x._attrs, r, leaf=x.next_rank is None)
    root = root_of(x)
    if root is None:
        return None
    for kind in order:
        try:
            done = _mutate_one(x, root, kind, r)
        except BaseException:       # noqa - a rejected mutation is not judged here
            done = None
        if done:
            return done
    return None


def _mutate_attrs(a, r, leaf):
    k = r.randrange(4 if leaf else 3)
    if k == 0:
        a.setFormat("U" if a.getFormat() == "C" else "C")
    elif k == 1:
        sh = a.getShape()
        a.setShape(sh + 3 if isinstance(sh, int) else 11)
    elif k == 2:
        a.setId("Z%d" % r.randrange(9))
    else:
        a.setDefault(40 + r.randrange(9))
    return "rankattr"


def _mutate_one(x, root, kind, r):
    levels = fibers_by_level(root)
    D = raw_depth(x)
    if kind == "leaf":
        lp = leaf_paths(root)
        if not lp:
            return None
        path, box = lp[r.randrange(len(lp))]
        ref = x.getPayloadRef(*path)
        ref <<= 900 + r.randrange(50)
        return "leaf"
    if kind == "insert":
        path = []
        f = root
        for d in range(D):
            last = d == D - 1
            subs = [(c, p) for c, p in zip(f.coords, f.payloads) if isinstance(p, Fiber)]
            if not last and subs and r.random() < 0.8:
                c, f = subs[r.randrange(len(subs))]
                path.append(c)
                continue
            ex = f.coords[-1] if f.coords else _coord_example(levels, d)
            if ex is None:
                if isinstance(x, Tensor) and isinstance(x.ranks[d].getId(), list):
                    return None
                ex = -1
            path.append(bump(ex, 1 + r.randrange(2)))
            # below a new coordinate everything is new: finish the point with fresh coordinates
            for d2 in range(d + 1, D):
                ex2 = _coord_example(levels, d2)
                if ex2 is None:
                    if isinstance(x, Tensor) and isinstance(x.ranks[d2].getId(), list):
                        return None
                    ex2 = 0
                path.append(ex2)
            break
        if len(path) != D:
            return None
        ref = x.getPayloadRef(*path)
        ref <<= 700 + r.randrange(50)
        return "insert"
    if kind == "rankattr":
        if isinstance(x, Tensor):
            i = r.randrange(len(x.ranks))
            rk = x.ranks[i]
            k = r.randrange(4 if rk.next_rank is None else 3)
            if k == 0:
                rk.setFormat("U" if rk.getFormat() == "C" else "C")
            elif k == 1:
                sh = rk.getAttrs().getShape()
                rk.getAttrs().setShape(sh + 3 if isinstance(sh, int) else 11)
            elif k == 2:
                rk.setId("Z%d" % r.randrange(9))
            else:
                rk.setDefault(40 + r.randrange(9))
            return "rankattr"
        d = r.randrange(len(levels))
        f = levels[d][r.randrange(len(levels[d]))]
        leaf = not any(isinstance(p, Fiber) for p in f.payloads) and d == len(levels) - 1
        return _mutate_attrs(f.getRankAttrs(), r, leaf=leaf)
    if kind == "reflatten":
        if not isinstance(x, Tensor):
            return None
        for d, rk in enumerate(x.ranks[:-1]):
            if isinstance(rk.getId(), list):
                x.flattenRanks(depth=d, levels=1)
                return "reflatten"
        return None
    if kind == "name":
        if not isinstance(x, Tensor):
            return None
        k = r.randrange(3)
        if k == 0:
            x.setName((x.getName() or "") + "~m")
        elif k == 1:
            x.setColor("blue" if x.getColor() != "blue" else "green")
        else:
            x.setMutable(not x.isMutable())
        return "name"
    if kind == "append":
        leaves = [f for f in levels[-1] if not any(isinstance(p, Fiber) for p in f.payloads)] if len(levels) == D else []
        leaves = [f for f in leaves if f.coords]
        if not leaves:
            return None
        f = leaves[r.randrange(len(leaves))]
        f.append(bump(f.coords[-1], 1 + r.randrange(3)), 600 + r.randrange(50))
        return "append"
    return None


# ------------------------------------------------------------------------------------------
# (A) value-returning operations
# ------------------------------------------------------------------------------------------
def _opkey(op):
    lvl = op["level"]
    n = op["name"]
    if n == "deepcopy":
        return f"deepcopy({ {'T': 'Tensor', 'F': 'Fiber', 'rank': 'Rank', 'attrs': 'RankAttrs', 'box': 'Payload', 'rankdefault': 'Payload'}[lvl] })".replace(" ", "")
    if n == "fromFiber":
        return "Tensor.fromFiber(owned)"
    if n == "copy":
        return "Fiber.copy" + ("" if op["args"].get("preserve_owner", True) else "[preserve_owner=False]")
    if n in ("add_ff", "mul_ff", "add_fs", "add_sf", "mul_fs", "mul_sf"):
        sym = "+" if n.startswith("add") else "*"
        form = {"ff": f"fiber{sym}fiber", "fs": f"fiber{sym}scalar", "sf": f"scalar{sym}fiber"}[n[-2:]]
        return "Fiber:" + form
    return ("Tensor." if lvl == "T" else "Fiber.") + n


def _guard(op, target, default, cfg, at_leaf_level=True):
    """Domain restrictions (SPEC assumptions); returns a reason to skip or None."""
    n, a = op["name"], op.get("args", {})
    f = root_of(target) if isinstance(target, (Tensor, Fiber)) else None
    if n in ("splitUniform", "splitNonUniform", "splitEqual", "splitUnEqual", "truediv", "floordiv",
             "updateCoords", "add_fs", "add_sf"):
        if f is not None and not int_coords(f):
            return "tuple coordinates"
    # (updateCoords at a rank that stores no shape raised AssertionError - shape-type assertion - until repository fix
    # 2dd70fc: key Tensor.updateCoords:raised:AssertionError)
    if n == "truediv":
        if not f.coords and not (f.getRankAttrs().getShape() or 0) >= 1:
            return "shape 0"
    if n == "floordiv" and not f.coords:
        return "empty fiber"
    if op["level"] == "F" and n == "swapRanks":
        if not any(isinstance(p, Fiber) and has_content(p, default) for p in f.payloads):
            return "nothing to swap"
    if op["level"] == "F" and n in ("flattenRanks", "mergeRanks"):
        need = a["depth"] + a["levels"] + 1
        if len(fibers_by_level(f)) < need:
            return "too shallow"
    if n in ("flattenRanks", "mergeRanks") and a["levels"] >= 2 and f is not None and has_empty_fiber(f):
        return "multi-level flatten over a stored empty fiber"
    if n in ("flattenRanks", "mergeRanks") and a["depth"] > 0 and f is not None:
        lv = fibers_by_level(f)
        if len(lv) > a["depth"] and any(g.coords and not has_content(g, default) for g in lv[a["depth"]]):
            return "flatten below the top over a stored sub-fiber without content"
    if n == "mergeRanks" and a.get("style") in ("absolute", "relative") and f is not None:
        total = raw_depth(target) if isinstance(target, Tensor) else len(fibers_by_level(f))
        if total - (a["depth"] + a["levels"] + 1) >= 2:
            return "colliding merge above two or more ranks"
    if n in ("add_ff", "mul_ff") and f is not None and f.getOwner() is None and len(fibers_by_level(f)) >= 2:
        if has_empty_fiber(f):
            return "free interior empty fiber"
        if len(fibers_by_level(f)) >= 3:
            return "free fibers infer defaults one level deep only"
    if op["level"] == "F" and n == "unflattenRanks":
        if not f.coords or not isinstance(f.coords[0], tuple):
            return "not flattened"
    if op["level"] == "T" and n == "unflattenRanks":
        lv = fibers_by_level(f)
        if len(lv) <= a["depth"] or not any(g.coords for g in lv[a["depth"]]):
            return "nothing stored in the flattened rank"
    if n in ("add_fs", "add_sf", "mul_fs", "mul_sf"):
        if any(isinstance(p, Fiber) for p in f.payloads) or not at_leaf_level:
            return "not a leaf fiber"
    return None


def _run_val(case, mon):
    cfg = case["cfg"]
    op = case["op"]
    d = cfg["default"]
    key = _opkey(op)
    try:
        T, F = build(cfg)
        # operands that are themselves results of earlier transforms
        for pre in op.get("prep", []):
            src = T if pre["level"] == "T" else pick(F, pre.get("path", []))
            res = apply_op(pre, src)
            if isinstance(res, Tensor):
                T, F = res, res.getRoot()
            else:
                T, F = None, res
        if op.get("reids") and T is not None:
            ids = T.getRankIds()
            op = dict(op, args=dict(op["args"], order=[ids[-1]] + ids[:-1]))
    except BaseException as e:      # noqa
        mon.count("prep_failed")
        mon.count(f"prep_failed:{type(e).__name__}")
        return
    lvl = op["level"]
    other = otherT = None
    at_leaf = True
    if lvl == "T":
        if T is None:
            mon.count("guard_skipped")
            return
        target = T
    elif lvl == "F":
        target, tlevel = pick(F, op.get("path", []), want_level=True)
        at_leaf = tlevel == (raw_depth(T) if T is not None else len(fibers_by_level(F))) - 1
        if op["name"] in ("add_ff", "mul_ff"):
            cfg2 = dict(cfg)
            otherT, F2 = build(cfg2, case["spec2"]) if not op.get("prep") else (None, gen.fiber_from_spec(case["spec2"], d))
            other, olevel = pick(F2, op.get("path", []), want_level=True)
            if olevel != tlevel or len(fibers_by_level(other)) != len(fibers_by_level(target)) or \
                    (other.getOwner() is None and len(fibers_by_level(other)) >= 2 and has_empty_fiber(other)):
                mon.count("guard_skipped")
                return
    elif lvl == "rank":
        target = T.ranks[op["args"]["i"]]
    elif lvl == "attrs":
        target = T.ranks[op["args"]["i"]].getAttrs()
    elif lvl == "box":
        lp = leaf_paths(F)
        if not lp:
            mon.count("guard_skipped")
            return
        target = lp[op["args"]["k"] % len(lp)][1]
    elif lvl == "rankdefault":
        target = T.ranks[-1].getAttrs().__dict__.get("_default")
        if not isinstance(target, Payload):
            mon.count("guard_skipped")
            return
    else:
        raise ValueError(lvl)
    why = _guard(op, target, d, cfg, at_leaf)
    if why:
        mon.count("guard_skipped")
        mon.count(f"guard:{why}")
        return
    if op["name"] == "fromFiber" and target.getOwner() is None:
        mon.count("guard_skipped")
        return
    # everything that must stay as it is
    watched = [T if T is not None else F]
    if target is not watched[0] and not isinstance(target, (Fiber,)):
        watched.append(target)
    if isinstance(target, Fiber) and target is not F:
        watched.append(target)
    if other is not None:
        watched.append(otherT if otherT is not None else other)
    before = [xsnap(w) for w in watched]
    opids = {}
    for w in watched:
        xids(w, opids)
    xids(target, opids)
    mon.count("val_ops")
    try:
        res = apply_op(op, target, other)
        raised = None
    except BaseException as e:      # noqa
        res, raised = None, e
    after = [xsnap(w) for w in watched]
    for w, s0, s1 in zip(watched, before, after):
        mon.check(s0 == s1, f"{key}:operand-modified:{diffkind(s0, s1) if s0 != s1 else ''}",
                  f"{key} changed its operand ({type(w).__name__}, {diffkind(s0, s1) if s0 != s1 else ''}); "
                  f"op={op} tree={cfg['spec']} default={d}")
    if raised is not None:
        mon.violation(f"{key}:raised:{type(raised).__name__}",
                      f"{key} raised {type(raised).__name__}: {raised} on op={op} tree={cfg['spec']} shape={cfg.get('shape')} default={d}")
        return
    mon.count("val_ops_returned")
    mon.count("val:" + key + ("[flattened operand]" if any(isinstance(r.getId(), list) for r in (T.ranks if T is not None else [])) else ""))
    if not mon.check(isinstance(res, (Tensor, Fiber, Rank, RankAttrs, Payload)), f"{key}:result-type",
                     f"{key} returned {type(res).__name__}"):
        return
    resids = xids(res)
    shared = sorted({lab for i, (lab, _) in resids.items() if i in opids})
    mon.count("alias_checks")
    mon.count("objects_compared", len(resids))
    aclass = alias_class(shared)
    mon.check(not shared, f"{key}:alias:{aclass}",
              f"result of {key} shares mutable objects with its operand: {shared}; op={op} tree={cfg['spec']} default={d}")
    # follow-ups: mutate the result, the operand must not move
    rsnap = xsnap(res)
    nres = nop = 0
    for m in case["mres"]:
        kind = mutate(res, m)
        if kind is None:
            mon.count("mutation_skipped")
            continue
        nres += 1
        mon.count("followup_result_mutations")
        now = [xsnap(w) for w in watched]
        ok = now == before
        if shared and not ok:
            mon.count("alias_confirmed_by_followup")       # consequence of the alias already reported
        else:
            mon.check(ok, f"{key}:followup:{kind}-of-result-visible-in-operand",
                      f"after {key}, a {kind} mutation of the result changed the operand although no shared object "
                      f"was found; op={op} tree={cfg['spec']} default={d}")
        if not ok:
            before = now
    rsnap = xsnap(res)
    mside = T if T is not None else F
    for j, m in enumerate(case["mop"]):
        tgt = mside
        if j == 0 and isinstance(target, (Payload, Rank, RankAttrs)):
            tgt = target
        elif j == 1 and other is not None:
            tgt = otherT if otherT is not None else other
        kind = mutate(tgt, m)
        if kind is None:
            mon.count("mutation_skipped")
            continue
        nop += 1
        mon.count("followup_operand_mutations")
        now = xsnap(res)
        ok = now == rsnap
        if shared and not ok:
            mon.count("alias_confirmed_by_followup")
        else:
            mon.check(ok, f"{key}:followup:{kind}-of-operand-visible-in-result",
                      f"after {key}, a {kind} mutation of the operand changed the result although no shared object "
                      f"was found; op={op} tree={cfg['spec']} default={d}")
        if not ok:
            rsnap = now
    stored = bool(leaf_paths(F)) if F is not None else False
    if stored and nres and nop:
        mon.nontrivial()
    mon.state(("val", key, cfg["own"], cfg["depth"], cfg["flavour"], cfg["default"], bool(op.get("prep"))))


# ------------------------------------------------------------------------------------------
# (B) read-only operations
# ------------------------------------------------------------------------------------------
class _RO:
    def __init__(self, mon, watched):
        self.mon = mon
        self.w = watched
        self.snaps = [xsnap(w) for w in watched]
        self.n = 0
        self.tmp = None

    def run(self, name, thunk, involved=(0,)):
        mon = self.mon
        self.n += 1
        mon.count("ro_ops")
        mon.count("ro:" + name)
        res = None
        try:
            res = thunk()
        except BaseException as e:      # noqa
            mon.violation(f"ro:{name}:raised:{type(e).__name__}", f"read-only {name} raised {type(e).__name__}: {e}")
        for i in involved:
            s = xsnap(self.w[i])
            same = s == self.snaps[i]
            mon.check(same, f"ro:{name}:modified:{diffkind(self.snaps[i], s) if not same else ''}",
                      f"read-only operation {name} changed {'its operand' if i == 0 else 'operand #%d' % i} "
                      f"({diffkind(self.snaps[i], s) if not same else ''})")
            if not same:
                self.snaps[i] = s
        return res

    def tmpfile(self, name):
        if self.tmp is None:
            self.tmp = tempfile.mkdtemp(prefix="fvc10-")
        return os.path.join(self.tmp, name)

    def close(self):
        if self.tmp:
            shutil.rmtree(self.tmp, ignore_errors=True)


def _drain(it, cap=400):
    out = []
    for i, el in enumerate(it):
        if i >= cap:
            break
        out.append(el)
    return out


def _quiet(fn):
    buf = io.StringIO()
    with contextlib.redirect_stdout(buf):
        fn()
    return buf.getvalue()


def _sample(levels, k=2):
    out = []
    for d, lv in enumerate(levels):
        idx = sorted({0, len(lv) - 1, len(lv) // 2})[:k + 1]
        for i in idx:
            out.append((d, lv[i]))
    return out


def _fiber_battery(ro, f, lvl, D, pts, default, fmt_u, inv, rng3, intc):
    """Single-fiber read-only operations.  `inv` = indices of watched objects that own f."""
    R = ro.run
    leaf = lvl == D - 1 and not any(isinstance(p, Fiber) for p in f.payloads)
    cs = list(f.coords)
    tries = list(dict.fromkeys(cs[:2] + cs[-1:] + [p[lvl] for p in pts if lvl < len(p)] + ([bump(cs[-1])] if cs else [0])))
    for c in tries[:6]:
        if not intc and not isinstance(c, type(cs[0]) if cs else int):
            continue
        p = R("Fiber.getPayload", lambda: f.getPayload(c), inv)
        R("Fiber.getPayload[allocate=False]", lambda: f.getPayload(c, allocate=False, default=-5), inv)
        R("Fiber.getPosition", lambda: f.getPosition(c), inv)
        if c not in cs and isinstance(p, Payload) and leaf:
            def w(p=p):
                q = p
                q <<= 99
            R("Fiber.getPayload:write-to-returned-absent-default", w, inv)
    if cs:
        R("Fiber.getPayload[start_pos]", lambda: f.getPayload(cs[-1], start_pos=0), inv)
        R("Fiber.getPosition[start_pos]", lambda: f.getPosition(cs[-1], start_pos=0), inv)
        for pos in sorted({0, len(cs) - 1, -1, -len(cs)}):
            R("Fiber.__getitem__[pos]", lambda: f[pos], inv)
        if any(isinstance(p, Fiber) and p.coords for p in f.payloads):
            k = next(i for i, p in enumerate(f.payloads) if isinstance(p, Fiber) and p.coords)
            R("Fiber.__getitem__[pos,pos]", lambda: f[k, 0], inv)
            R("Fiber.__getitem__[slice,slice]", lambda: f[k:k + 1, 0:1], inv)
    R("Fiber.__getitem__[slice]", lambda: (f[0:2], f[1:], f[::2], f[:0]), inv)
    R("Fiber.__iter__", lambda: _drain(iter(f)), inv)
    R("Fiber.__reversed__", lambda: _drain(reversed(f)), inv)
    R("Fiber.iterOccupancy", lambda: _drain(f.iterOccupancy()), inv)
    R("Fiber.iterActive", lambda: _drain(f.iterActive()), inv)
    if intc:
        tag = "[U]" if fmt_u else ""
        R("Fiber.iterShape" + tag, lambda: _drain(f.iterShape()), inv)
        R("Fiber.iterActiveShape" + tag, lambda: _drain(f.iterActiveShape()), inv)
        R("Fiber.iterRange", lambda: _drain(f.iterRange(rng3[0], rng3[1])), inv)
        R("Fiber.iterRangeShape" + tag, lambda: _drain(f.iterRangeShape(rng3[0], rng3[1], rng3[2])), inv)
        R("Fiber.iterUncompressed", lambda: _drain(f.iterUncompressed()), inv)
        R("Fiber.iterShapeCoords", lambda: _drain(f.iterShapeCoords()), inv)
        R("Fiber.coiterShape/1", lambda: _drain(Fiber.coiterShape([f])), inv)
    R("Fiber.isEmpty", lambda: f.isEmpty(), inv)
    R("Fiber.countValues", lambda: (f.countValues(), f.countValues(recursive=False)), inv)
    R("Fiber.__len__", lambda: len(f), inv)
    R("Fiber.getShape", lambda: (f.getShape(), f.getShape(all_ranks=False), f.getShape(all_ranks=False, authoritative=True)), inv)
    if f.getRankAttrs().__dict__.get("_shape") is None:
        ro.mon.count("ro:Fiber.getShape[rank without a stored shape]")
    if f.getOwner() is not None:
        R("Fiber.getShape[authoritative]", lambda: f.getShape(authoritative=True), inv)
    R("Fiber.estimateShape", lambda: (f.estimateShape(), f.estimateShape(all_ranks=False)), inv)
    R("Fiber.getDepth", lambda: f.getDepth(), inv)
    R("Fiber.getRankIds", lambda: (f.getRankIds(), f.getRankIds(all_ranks=False)), inv)
    R("Fiber.minCoord/maxCoord", lambda: (f.minCoord(), f.maxCoord()), inv)
    R("Fiber.getActive", lambda: f.getActive(), inv)
    R("Fiber.getCoords/getPayloads", lambda: (f.getCoords(), f.getPayloads(), f.isOrdered(), f.isUnique(), f.getOwner(),
                                              f.getRankAttrs(), f.getSavedPos(), f.isLazy()), inv)

    def dflt():
        v = f.getDefault()
        if isinstance(v, Payload):
            v <<= 98
    R("Fiber.getDefault+write", dflt, inv)
    R("Fiber.__eq__[self]", lambda: f == f, inv)
    R("Fiber.__str__", lambda: str(f), inv)
    R("Fiber.__repr__", lambda: repr(f), inv)
    R("Fiber.__format__", lambda: (format(f, ""), format(f, "n*"), f"{f:n}", f"{f:*}"), inv)
    R("Fiber.print", lambda: _quiet(lambda: f.print("title")), inv)
    R("Fiber.fiber2dict", lambda: f.fiber2dict(), inv)
    R("Fiber.dump", lambda: f.dump(ro.tmpfile("fiber.yaml")), inv)
    if intc and not has_empty_fiber(f) and (f.getOwner() is None or f.getShape(authoritative=True) is not None):
        R("Fiber.uncompress", lambda: f.uncompress(), inv)


def _pair_battery(ro, fs, invs, fmts_u, intc, rng3):
    """Co-iteration / comparison of fibers of the same level from different operands."""
    R = ro.run
    f, g = fs[0], fs[1]
    inv = tuple(sorted(set(invs[0] + invs[1])))
    R("Fiber.__and__", lambda: (lambda r: (_drain(r), _drain(r)))(f & g), inv)
    R("Fiber.__or__", lambda: (lambda r: (_drain(r), _drain(r)))(f | g), inv)
    R("Fiber.__xor__", lambda: (lambda r: (_drain(r), _drain(r)))(f ^ g), inv)
    if not fmts_u:
        R("Fiber.__sub__", lambda: (lambda r: (_drain(r), _drain(r)))(f - g), inv)
    R("Fiber.__eq__", lambda: (f == g, g == f, f != g), inv)
    R("Fiber.intersection/2", lambda: _drain(Fiber.intersection(f, g)), inv)
    R("Fiber.union/2", lambda: _drain(Fiber.union(f, g)), inv)
    if len(fs) > 2:
        h = fs[2]
        inv3 = tuple(sorted(set(inv + invs[2])))
        R("Fiber.intersection/3", lambda: _drain(Fiber.intersection(f, g, h)), inv3)
        R("Fiber.union/3", lambda: _drain(Fiber.union(f, g, h)), inv3)
        if intc:
            R("Fiber.coiterShape/3", lambda: _drain(Fiber.coiterShape([f, g, h])), inv3)
    if intc:
        tag = "[U]" if fmts_u else ""
        R("Fiber.coiterShape" + tag, lambda: _drain(Fiber.coiterShape([f, g])), inv)
        R("Fiber.coiterActiveShape" + tag, lambda: _drain(Fiber.coiterActiveShape([f, g])), inv)
        R("Fiber.coiterRangeShape" + tag, lambda: _drain(Fiber.coiterRangeShape([f, g], rng3[0], rng3[1], rng3[2])), inv)


def _tensor_battery(ro, T, i, case, others):
    R = ro.run
    inv = (i,)
    cfg = case["cfg"]
    D = len(T.ranks)
    ids = T.getRankIds()
    root = T.getRoot()
    for pt in case["pts"]:
        for k in range(1, D + 1):
            p = R("Tensor.getPayload" + ("[partial]" if k < D else ""), lambda: T.getPayload(*pt[:k]), inv)
            R("Tensor.getPayload[allocate=False]", lambda: T.getPayload(*pt[:k], allocate=False, default=-3), inv)
            if k == D and isinstance(p, Payload) and id(p) not in {id(b) for _, b in leaf_paths(root)}:
                def w(p=p):
                    q = p
                    q <<= 97
                R("Tensor.getPayload:write-to-returned-absent-default", w, inv)
    if root.coords:
        R("Tensor.__getitem__", lambda: (T[0], T[-1], T[0:1]), inv)
    R("Tensor.__iter__", lambda: _drain(iter(T)), inv)
    R("Tensor.__reversed__", lambda: _drain(reversed(T)), inv)
    R("Tensor.countValues", lambda: T.countValues(), inv)
    R("Tensor.getShape", lambda: (T.getShape(), T.getShape(authoritative=True), T.getShape(list(ids[-1:])),
                                  T.getShape(ids[-1]) if isinstance(ids[-1], str) else None), inv)
    if any(rk._attrs.__dict__.get("_shape") is None for rk in T.ranks):
        ro.mon.count("ro:Tensor.getShape[rank without a stored shape]")
    R("Tensor.getDepth/getRankIds", lambda: (T.getDepth(), T.getRankIds(), T.getRoot(), T.getName(), T.getColor(), T.isMutable(),
                                             [T.getFormat(r) for r in ids]), inv)

    def dflt():
        v = T.getDefault()
        if isinstance(v, Payload):
            v <<= 96
    R("Tensor.getDefault+write", dflt, inv)
    for rk in T.ranks:
        def rdflt(rk=rk):
            v = rk.getDefault()
            if isinstance(v, Payload):
                v <<= 95
            v2 = rk.getAttrs().getDefault()
            if isinstance(v2, Payload):
                v2 <<= 94
        R("Rank.getDefault+write", rdflt, inv)
        R("Rank.queries", lambda rk=rk: (rk.getId(), rk.getRankIds(), rk.getShape(), rk.getShape(all_ranks=False),
                                         rk.getShape(authoritative=True), rk.getFibers(), rk.getFormat(), rk.getAttrs(),
                                         rk.getNextRank(), str(rk), repr(rk), repr(rk.getAttrs())), inv)
    R("Tensor.__str__", lambda: str(T), inv)
    R("Tensor.__repr__", lambda: repr(T), inv)
    R("Tensor.__format__", lambda: (format(T, ""), format(T, "n*")), inv)
    R("Tensor.print", lambda: _quiet(lambda: T.print("title")), inv)
    R("Tensor.dump", lambda: T.dump(ro.tmpfile("tensor.yaml")), inv)
    R("Tensor.__eq__[self]", lambda: T == T, inv)
    for j, o in others:
        R("Tensor.__eq__", lambda o=o: (T == o, o == T), tuple(sorted({i, j})))
    # Format footprints (string rank ids only)
    if case.get("fspec") is not None and all(isinstance(r, str) for r in ids):
        from fibertree.model.format import Format
        fspec = copy.deepcopy(case["fspec"])
        fm = R("Format.__init__", lambda: Format(T, fspec), inv)
        if fm is not None:
            R("Format.getTensor", lambda: fm.getTensor(), inv)
            R("Format.getRoot", lambda: fm.getRoot(), inv)
            for r in ids:
                R("Format.getRank", lambda r=r: fm.getRank(r), inv)
            R("Format.getFiber[root]", lambda: fm.getFiber(), inv)
            R("Format.getSubTree[root]", lambda: fm.getSubTree(), inv)
            stored = {p[:k] for p, _ in leaf_paths(root) for k in range(1, D + 1)}
            prefixes = set()
            for pt in case["pts"]:
                for k in range(1, D):
                    prefixes.add(tuple(pt[:k]))
            for path, _ in leaf_paths(root)[:3]:
                for k in range(1, D):
                    prefixes.add(tuple(path[:k]))
            for pre in sorted(prefixes)[:10]:
                tag = "" if pre in stored else "[absent]"
                R("Format.getFiber" + tag, lambda pre=pre: fm.getFiber(*pre), inv)
                R("Format.getSubTree" + tag, lambda pre=pre: fm.getSubTree(*pre), inv)
            R("Format.getSubTree[point]", lambda: fm.getSubTree(*case["pts"][0]), inv)
    # merger cost model
    if D >= 2:
        from fibertree.model.compute import Compute
        allc = all(rk.getFormat() == "C" for rk in T.ranks)
        lat = case.get("latency", 1)
        if lat == "N" and not allc:
            lat = 2
        for dep in range(D - 1):
            R("Compute.numSwaps", lambda dep=dep: Compute.numSwaps(T, dep, case.get("radix", 2), lat), inv)


def _run_ro(case, mon):
    cfg = case["cfg"]
    d = cfg["default"]
    D = cfg["depth"]
    objs = [build(cfg), build(cfg, case["spec2"]), build(cfg, case["spec3"])]
    watched = [t if t is not None else f for t, f in objs]
    ro = _RO(mon, watched)
    rng3 = case.get("rng", [0, 5, 1])
    try:
        roots = [f for _, f in objs]
        levels = [fibers_by_level(r) for r in roots]
        intc = True
        fmts = cfg.get("fmts") or ["C"] * D
        if cfg["own"] == "tensor":
            others = [(j, objs[j][0]) for j in (1, 2)]
            _tensor_battery(ro, objs[0][0], 0, case, others)
        for lvl, f in _sample(levels[0]):
            _fiber_battery(ro, f, lvl, D, case["pts"], d, fmts[lvl] == "U" if lvl < len(fmts) else False, (0,), rng3, intc)
        for lvl in range(min(len(lv) for lv in levels)):
            for k in (0, -1):
                fs = [levels[j][lvl][k] for j in range(3)]
                _pair_battery(ro, fs, [(0,), (1,), (2,)], fmts[lvl] == "U", intc, rng3)
        # a flattened view of the same tensor: tuple coordinates, list-valued rank id
        if cfg["own"] == "tensor" and D >= 2 and objs[0][1].coords:
            try:
                TF = objs[0][0].flattenRanks(depth=0, levels=1)
            except BaseException:       # noqa - judged in the `val` cases
                TF = None
            if TF is not None:
                ro2 = _RO(mon, [TF])
                ro2.tmp = ro.tmpfile("flat")
                os.makedirs(ro2.tmp, exist_ok=True)
                fcase = dict(case, fspec=None, pts=[])
                _tensor_battery(ro2, TF, 0, fcase, [])
                for lvl, f in _sample(fibers_by_level(TF.getRoot()), 1)[:2]:
                    _fiber_battery(ro2, f, lvl, D - 1, [], d, False, (0,), rng3, int_coords(f) and lvl > 0)
                ro.n += ro2.n
    finally:
        ro.close()
    if leaf_paths(roots[0]) and ro.n >= 40:
        mon.nontrivial()
    mon.state(("ro", cfg["own"], D, cfg["flavour"], d, tuple(cfg.get("fmts") or ()), bool(cfg.get("shape"))))


# ------------------------------------------------------------------------------------------
# image rendering
# ------------------------------------------------------------------------------------------
def _render(T, style, conf=None):
    from fibertree.graphics.tensor_image import TensorImage
    im = (TensorImage(T, style=style) if conf is None else TensorImage(T, style=style, highlights=_hl_arg(conf))).im
    return (im.mode, im.size, im.tobytes())


def _run_img(case, mon):
    cfg = case["cfg"]
    T, F = build(cfg)
    before = xsnap(T)
    done = 0
    plain = {}
    for style in STYLES:
        ims = []
        for k in range(2):
            try:
                ims.append(_render(T, style))
                mon.count("img_renders")
            except BaseException as e:      # noqa
                mon.violation(f"img:{style}:raised:{type(e).__name__}",
                              f"TensorImage(style={style}) raised {type(e).__name__}: {e} on tree={cfg['spec']} shape={cfg.get('shape')}")
            now = xsnap(T)
            same = now == before
            mon.check(same, f"img:{style}:modified:{diffkind(before, now) if not same else ''}",
                      f"rendering style {style} changed the tensor ({diffkind(before, now) if not same else ''}); "
                      f"tree={cfg['spec']} shape={cfg.get('shape')}")
            if not same:
                before = now
        if len(ims) == 2:
            done += 1
            plain[style] = ims[0]
            mon.count("img_pairs_compared")
            mon.check(ims[0] == ims[1], f"img:{style}:nondeterministic",
                      f"two renderings (style {style}) of the same tensor differ; tree={cfg['spec']} shape={cfg.get('shape')}")
    # the root fiber rendered on its own (a quarter of the cases)
    if case.get("fiber_too", len(cfg["spec"]) % 4 == 0):
        st = STYLES[len(cfg["spec"]) % 3]
        try:
            a = _render(F, st)
            b = _render(F, st)
            mon.count("img_renders", 2)
            mon.check(a == b, f"img:{st}:nondeterministic:fiber", "two renderings of the same fiber differ")
        except BaseException as e:      # noqa
            mon.violation(f"img:{st}:raised:{type(e).__name__}:fiber", f"TensorImage(fiber) raised {type(e).__name__}: {e}")
        now = xsnap(T)
        mon.check(now == before, f"img:{st}:modified:{diffkind(before, now) if now != before else ''}:fiber",
                  "rendering the root fiber changed the tensor")
        before = now
    # the same tensor rendered with highlights (worker -> points): the first configuration twice with equal
    # arguments - back to back, or with one rendering of another configuration in between
    hl = case.get("hl") or {"styles": [], "confs": []}
    confs = hl["confs"]
    for conf in confs:
        for w, pts in conf["w"]:
            mon.count(f"img_hl_workers[{_worker_kind(w)}]")
            for pt in pts:
                mon.count(f"img_hl_points[{_point_class(cfg['spec'], pt)}]")
        mon.count(f"img_hl_form[{conf['form']}]")
    hl_done = 0
    inter = ":interleaved" if len(confs) > 1 else ""
    for style in hl["styles"] if confs else []:
        ims = []
        for conf in [confs[0]] + confs[1:] + [confs[0]]:
            what = f"form={conf['form']} highlights={conf['w']}"
            im = None
            try:
                im = _render(T, style, conf)
                mon.count("img_hl_renders")
            except BaseException as e:      # noqa
                mon.violation(f"img:{style}:raised:{type(e).__name__}:highlighted",
                              f"TensorImage(style={style}, {what}) raised {type(e).__name__}: {e} on tree={cfg['spec']} "
                              f"shape={cfg.get('shape')}")
            ims.append(im)
            now = xsnap(T)
            same = now == before
            mon.check(same, f"img:{style}:modified:{diffkind(before, now) if not same else ''}:highlighted",
                      f"rendering style {style} with {what} changed the tensor "
                      f"({diffkind(before, now) if not same else ''}); tree={cfg['spec']} shape={cfg.get('shape')}")
            if not same:
                before = now
            if im is not None and style in plain and im != plain[style]:
                mon.count("img_hl_visible")             # the highlights coloured something
        if any(im is None for im in ims):
            continue
        hl_done += 1
        mon.count("img_hl_pairs_compared")
        mon.count("img_hl_pairs_compared" + (":interleaved" if inter else ":back-to-back"))
        what = f"form={confs[0]['form']} highlights={confs[0]['w']}"
        mon.check(ims[0] == ims[-1], f"img:{style}:nondeterministic:highlighted{inter}",
                  f"two renderings (style {style}, {what}) of the same tensor with equal highlights"
                  + (f", {len(confs) - 1} rendering(s) with other highlights in between," if inter else "")
                  + f" differ; tree={cfg['spec']} shape={cfg.get('shape')}")
    if done == 3 and hl_done == len(hl["styles"]) and leaf_paths(F):
        mon.nontrivial()
    mon.state(("img", cfg["depth"], cfg["flavour"], bool(cfg.get("shape")), has_empty_fiber(F)))
    for conf in confs:
        mon.state(("img-hl", cfg["depth"], conf["form"], sorted({_worker_kind(w) for w, _ in conf["w"]}),
                   sorted({_point_class(cfg["spec"], pt) for _, pts in conf["w"] for pt in pts})))


def run_case(case, mon):
    kind = case["kind"]
    if case["cfg"].get("build"):
        tag = "filled" + ("" if case["cfg"].get("shape") else ",no shape")
        mon.count(f"{kind}_cases[{tag}]")
        mon.count(f"{kind}_cases[filled:{case['cfg']['build']}]")
    if kind == "val":
        _run_val(case, mon)
    elif kind == "ro":
        _run_ro(case, mon)
    elif kind == "img":
        _run_img(case, mon)
