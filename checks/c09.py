"""C09 - rank transforms move every point to its image and nothing else.

Monitor: content-map oracle.  The content of the operand (point -> non-default leaf value) is read from the
raw coordinate/payload lists of the tree actually built (and cross-checked against the case's tree spec); the
stated coordinate map of the transform is applied to that dict and compared with the content read from the raw
lists of the result.  Round trips (swizzle . inverse swizzle, swap . swap, unflatten . flatten for tuple/pair,
flatten(absolute|relative) . split) must restore the original content.  Every result must satisfy WF (C01's
invariant) and, for tensors, RC (C02's invariant) and containment of every stored coordinate in the shape the
result itself declares as authoritative for that rank; a transform raising on a legal tree is a violation.
Operands include trees in which one rank already carries tuple coordinates (the residue of an earlier tuple / pair
flattening, built on the spec by the reference map): swizzle, swap, tuple / pair flatten + unflatten, absolute merge;
tensors that are the result of a split (tiled rank: partitions with different active ranges, dotted rank ids); and
tensors whose rank ids have more than one character.  A round trip at tensor level must also restore the operand's
rank ids (an equal tensor has equal rank ids; read from the raw rank attributes).  "Every result is itself a
well-formed tensor" is also judged by its consequence: a result that passed the oracle is re-used as the operand of a
split followed by flatten('absolute'), which must restore the result's content (clause result-reused); and a result that is
a new object is a tensor (fiber) of its own: elements of it are later updated in place (ref = getPayloadRef(point); ref += v),
which must show in the result and leave the operand's content as it was (so transforming the operand again still gives the
image of the original), and an update of the operand afterwards must not show in the result (clauses result-updated /
operand-updated).  Trees with a wide rank (20-48 coordinates) make up to 48 points / sub-fibers collide at one merged coordinate.

Violation keys: `<Entry>.<method>[:style]:<clause>:<kind>` (clause = content / roundtrip / WF:<kinds> / WF:coordinate-outside-declared-shape /
RC / rank-ids-not-restored / raised:<Exc>@<innermost library function>; re-use of a result: `<Entry>.<method>:result-reused:
split+flatten(absolute):mismatch` or `...:result-reused:raised:...`; later in-place update: `<Entry>.<method>:result-updated:
mismatch | operand-changed | raised:...` and `<Entry>.<method>:operand-updated:result-changed`).  A violation whose *input* lies in one of a few recognised classes (TAG_* below: a stored but
content-empty sub-tree at the transform's depth, a zero-length fiber strictly inside the merged ranks, a coordinate
outside a stale estimated shape, ...) and whose failure site is one that class can explain is keyed
`<transform family>:<class>:<failure kind>` instead, so that one mechanism is one key.
"""
import itertools
import random

from fibertree import Fiber, Payload, Tensor

from fvmon import gen
from fvmon.observe import content, WF, RC, unbox, wf_kind, rc_kind, spec_of

SPEC = {
    "anchors": ["fibertree.core.tensor:Tensor.swizzleRanks", "fibertree.core.tensor:Tensor.swapRanks", "fibertree.core.tensor:Tensor.flattenRanks", "fibertree.core.tensor:Tensor.mergeRanks", "fibertree.core.tensor:Tensor.unflattenRanks", "fibertree.core.tensor:Tensor._flattenRankIdsShape", "fibertree.core.tensor:Tensor._unflattenRankIdsShape", "fibertree.core.tensor:Tensor.updateCoords", "fibertree.core.tensor:Tensor.updatePayloads", "fibertree.core.fiber:Fiber.swapRanks", "fibertree.core.fiber:Fiber.mergeRanks", "fibertree.core.fiber:Fiber._mergeRanksHelper", "fibertree.core.fiber:Fiber._flattenCoords", "fibertree.core.fiber:Fiber._mergeToFibertree", "fibertree.core.fiber:Fiber.unflattenRanks", "fibertree.core.fiber:Fiber.updateCoords", "fibertree.core.fiber:Fiber.updatePayloads"],
    "rule": ("case = one tensor / free fiber tree of depth 2-4 (canonical or dirty: explicit default leaves, empty "
             "sub-fibers, all-default sub-trees; the empty tensor; leaf default 0 or 7 where 0 is then a stored value; "
             "authoritative, padded or estimated shape; 30% of the tensors additionally mutated after construction through "
             "getPayloadRef, with or without a write) x one transform x one entry point: swizzleRanks (every permutation) "
             "and back, swapRanks twice (Tensor / Fiber.swapRanks / swapRanksBelow), flattenRanks (tuple, pair, linear; every "
             "(depth, levels); Tensor / Fiber / flattenRanksBelow) followed by unflattenRanks (Tensor / Fiber / "
             "unflattenRanksBelow), mergeRanks (absolute, relative; default merge_fn and sum/max/min/prod/count), "
             "split{Uniform,Equal,NonUniform,UnEqual} followed by flatten(absolute, or relative for relativeCoords), "
             "updateCoords (shift / affine / order-reversing, every depth) and updatePayloads (leaf depth) in place on a fiber "
             "and through Tensor.update*(depth=d).  A quarter of the swizzle / swap / flatten(tuple, pair)+unflatten / "
             "merge(absolute) cases take an operand in which one rank (any position) already carries tuple coordinates: flat "
             "tuples or nested pairs of 2-3 combined integer ranks, rank id = list of the combined ids, shape authoritative "
             "(tuple shaped) or estimated.  Half of the tensors have rank ids of more than one character (numbered K0 M1 .., "
             "words, or the dotted ids a split leaves); every tensor-level round trip must restore the operand's rank ids.  A "
             "fifth of the tensor-level swizzle / swap / flatten(tuple, pair)+unflatten cases take as operand the result of a "
             "split (uniform / equal / nonuniform / unequal, any depth, absolute or relative coordinates) of a depth 2-3 "
             "tensor whose split rank has extent 4-6, i.e. a tiled tensor whose partitions have different active ranges.  A "
             "third of the tensor results of swizzle / swap / flatten+unflatten / merge (60% after a split) are re-used: "
             "split (any kind) of one of the result's integer ranks followed by flatten('absolute') must restore the "
             "result's content.  Every result that is a new object (not the *Below forms) and passed the oracle is afterwards "
             "updated in place at up to three of its stored points (ref = result.getPayloadRef(*point); ref += 1000): the result "
             "must hold its content with the update and the operand its own content; then the operand is updated the same way "
             "and the result must not change (also judged between the result of a round trip and the intermediate result).  "
             "60% of the tensor-level flatten(tuple, pair) cases (every systematic one) whose result keeps a rank below the "
             "combined one use that result twice: it is first flattened (tuple / pair) or merged (absolute, sum) again at the "
             "same depth - the second result must hold the image of the first - and then unflattened as before (content and "
             "rank ids of the original restored).  Merges use every merge function and every leaf default at every depth (also "
             "where whole sub-fibers collide and a lower coordinate is present in only some of them).  "
             "6% of the swizzle / swap / flatten / split+flatten cases and 15% of the merge cases take a tree one rank of which "
             "(any position) is wide, 20-48 coordinates (30% of those merges: two adjacent wide ranks of 32-40, the remaining "
             "extents 2), so that up to 48 points or whole sub-fibers collide at one merged coordinate.  Systematic part: every (transform, depth, levels, style, entry point, "
             "permutation) over a fixed family of 5 trees per depth, and every (swizzle permutation, swap, tuple/pair flatten, "
             "absolute merge; depth, levels, entry point) over every position and nesting of one tuple-coordinate rank "
             "(depth 2-3, 2 trees each), and every (swizzle permutation, swap depth, tuple/pair flatten (depth, levels)) over a "
             "fixed family of split results (every split depth; split kinds; absolute and relative; depth 3-4), each with a "
             "re-use step, and every (swizzle permutation, swap depth, flatten (depth, levels, style), merge (depth, levels, "
             "style; sum / max / count / min where legal)) over a fixed family of 12 trees with one or two wide ranks (32-40 "
             "coordinates, every position, depth 2-4); then random cases.  Every tensor result is also checked for containment of its stored "
             "coordinates in the shape it declares authoritative.  Non-trivial = the operand holds at "
             "least 2 points, the transform returned a result that passed the oracle, and its image differs from the original "
             "content (merges: at least one real collision of points; split round trips and updatePayloads: at least 2 "
             "points); distinct = distinct case description."),
    "shards": {"quick": 16, "thorough": 16},
    "budget_s": {"quick": 150, "thorough": 900},
    "min_counts": {"quick": {"evaluations": 3000, "oracle_evals": 15000, "results_judged": 5000,
                             "roundtrips_checked": 1500, "wf_checked": 5000, "rc_checked": 2000,
                             "collisions_merged": 500, "dirty_inputs": 1000, "poked_inputs": 300,
                             "nonzero_default_inputs": 500, "empty_inputs": 300, "kind:swizzle": 300, "kind:swap": 200,
                             "kind:flatten": 500, "kind:merge": 300, "kind:splitflat": 200, "kind:updcoords": 150,
                             "kind:updpay": 100, "containment_checked": 1500, "tuple_rank_inputs": 500,
                             "tuple_rank:swizzle": 100, "tuple_rank:swap": 60, "tuple_rank:flatten": 200,
                             "tuple_rank:merge": 100, "multichar_id_inputs": 1000, "rank_ids_checked": 1200,
                             "pre_split_inputs": 500, "pre_split_several_partitions": 350, "pre_split:swizzle": 200,
                             "pre_split:swap": 60, "pre_split:flatten": 200, "results_reused": 400,
                             "results_updated": 4000, "wide_rank_inputs": 300, "wide_rank:swizzle": 40, "wide_rank:flatten": 60,
                             "wide_rank:merge": 150, "merge_fanin:10-26": 25, "merge_fanin:27+": 40,
                             "fiber_merge_fanin:27+": 8, "flattened_results_transformed_again": 120, "again:tuple": 30,
                             "again:pair": 30, "again:merge": 30, "fiber_merge_partial_presence:nonzero_default": 20,
                             "fiber_merge_partial_presence:fn_without_neutral_default": 60},
                   "thorough": {"evaluations": 30000, "oracle_evals": 150000, "results_judged": 50000,
                                "roundtrips_checked": 15000, "collisions_merged": 5000, "containment_checked": 15000,
                                "tuple_rank_inputs": 5000, "tuple_rank:swap": 500, "multichar_id_inputs": 10000,
                                "rank_ids_checked": 12000, "pre_split_inputs": 4000, "pre_split_several_partitions": 3000,
                                "results_reused": 4000, "results_updated": 40000, "wide_rank_inputs": 3000,
                                "merge_fanin:27+": 300, "fiber_merge_fanin:27+": 50,
                                "flattened_results_transformed_again": 1200, "fiber_merge_partial_presence:nonzero_default": 200}},
    "assumptions": [
        "ordered/unique fibers with integer coordinates in the operand; coordinates (also those written through getPayloadRef) lie "
        "inside the shape when a shape is declared",
        "`linear` flattening is generated only with authoritative shapes on every rank involved (documented requirement)",
        "unflatten is applied only to results of `tuple` / `pair` flattening (absolute/relative are documented as not invertible; "
        "linear has no inverse operation)",
        "Fiber.swapRanks / Fiber.unflattenRanks are called directly only on fibers that hold at least one point "
        "(both assert a first tuple coordinate); the tensor-level forms and the *Below forms are also given empty operands",
        "merge functions: sum (default), max, min, prod and - for levels == 1 - count, with leaf default 0 or 7, at every depth: "
        "the statement reduces colliding *points*, so also when whole sub-fibers collide above the leaf rank merge_fn is owed "
        "exactly the values of the points that are there (an absent entry is not a point; the oracle reduces the raw colliding "
        "values).  Multi-level merges apply merge_fn hierarchically, so only associative and commutative functions are used with "
        "levels > 1 (also with a non-zero leaf default, where a leaf value 0 of an intermediate level is a value like any other: "
        "the fibers built for one level lost the leaf default until the repository fix recorded in known_findings.json)",
        "second use of a flattened tensor (clause result-transformed-again): tensor-level flatten(tuple / pair) results that passed "
        "the oracle and keep a rank below the combined one; second transform = flattenRanks(depth, 1, tuple / pair) or "
        "mergeRanks(depth, 1, absolute, default merge_fn); only its content / WF / RC / containment are judged (its rank ids are "
        "C14's); the first result is then unflattened and judged exactly as without the second use",
        "content of every result is read with the operand's leaf default (a result's own default / rank ids / shape / format are C14's)",
        "a result may keep or drop explicit defaults and empty sub-fibers (content is compared); that the transform itself leaves the "
        "operand structurally as it was is C10's",
        "flatten-after-split is judged only when the split itself returned a well-formed tree holding every point and the operand "
        "has no stored content-empty sub-tree at the split depth (splitting is C08's)",
        "updateCoords is given a rank whose shape is known, or a new_shape (it asserts the shape's type against the coordinates; "
        "a free fiber without shape and a tensor of unknown / stale estimated shape get new_shape); coordinate functions are "
        "injective and int -> int",
        "updatePayloads functions map the default to itself (whether stored defaults are visited is not part of the statement) and "
        "do not depend on the position argument; only the leaf depth is driven directly, interior depths through the *Below forms",
        "operands with a tuple-coordinate rank: exactly one such rank, coordinates are flat tuples or right-nested pairs of "
        "integers as flattenRanks('tuple' / 'pair') leaves them; only swizzle, swap, flatten('tuple' / 'pair') + unflatten "
        "and merge('absolute') are driven on them ('linear' and 'relative' are arithmetic on integers; splits and update* of "
        "tuple ranks are not generated), no getPayloadRef writes; unflatten after a 'tuple' flatten is judged only when every "
        "combined rank but the last has integer coordinates (a flat tuple cannot tell a tuple coordinate from separate ones - "
        "'pair' is always inverted); guard: a tensor-level swap of an integer rank with a tuple rank "
        "at depth > 0 is not run when a content-empty sub-tree sits at that depth (left un-swapped -> TypeError in Rank.append)",
        "containment (clause WF:coordinate-outside-declared-shape) is judged on tensor results, for every rank whose shape the "
        "result itself flags as not estimated and whose stored coordinates are comparable with it (int / int, tuples "
        "component-wise), read from the raw lists by depth; which shape is declared is otherwise C14's.  Not judged: "
        "updateCoords without new_shape (the caller keeps the old shape); guards (observed behaviour that the statement does not pin down, see DESIGN 12.3): operands (also "
        "intermediate ones of a round trip) whose *estimated* shape is stale - a stored coordinate outside it, after a "
        "getPayloadRef write or for tuple coordinates whose estimate comes from the largest coordinate only - because "
        "Tensor.fromFiber declares the copied estimate authoritative; swaps with a content-empty sub-tree at their depth "
        "(left un-swapped); 'relative' merges of independent ranks (declared shape is the upper rank's)",
        "rank ids: strings of 1-5 characters (letters, digits, a dot), distinct within a tensor; a tuple-coordinate rank has "
        "the list of the ids it combines.  Rank ids are judged only on tensor-level round trips (swizzle + inverse, swap twice, "
        "flatten(tuple / pair) + unflatten): they must equal the operand's (the statement's `restores an equal tensor`; which ids "
        "an intermediate result carries is C14's).  Observed, not claimed (DESIGN 12.3): not judged when an upper combined rank of the "
        "flattening already has a list id - the id of a flattened rank is a flat list, so [[K, M], N] -> [K, M, N] is "
        "unflattened to K, [M, N] although the coordinates are restored",
        "operands that are the result of a split: the split is C08's - the case is dropped unless the split returned a "
        "well-formed tensor (WF, RC) that holds every point of the original at its image and the original has no stored "
        "content-empty sub-tree at the split depth; content is then read from the raw lists of the split result.  Only "
        "tensor-level swizzle, swap and flatten(tuple / pair) + unflatten are driven on them; no getPayloadRef writes, no "
        "tuple-coordinate rank",
        "re-use of a result (clause result-reused): only tensor results that passed the oracle and hold at least one point; the "
        "split is applied (absolute coordinates, no halo) to a rank with integer coordinates (also one with a list id: a merged or "
        "linearly flattened rank).  Not judged (same guards as containment): stale estimated shapes, swaps / unflattenings with a "
        "content-empty sub-tree at their depth (left as they are), 'relative' merges of independent ranks, a stored "
        "content-empty sub-tree at the depth of the new split (C08's), and operands of which a stored coordinate lies outside its "
        "fiber's active range (the partitions of a relativeCoords split keep an absolute active range: a split of such a "
        "tensor drops points already before any transform)",
        "later in-place update (clauses result-updated / operand-updated): judged on results that passed the content oracle, are a "
        "new object (every tensor-level transform; Fiber.swapRanks / flattenRanks / mergeRanks / unflattenRanks - all documented "
        "as returning a new fiber / tensor) and hold at least one point, against operands that hold at least one point; only "
        "stored non-default elements are updated (no insertion), by + 1000, through the public idiom ref = x.getPayloadRef(*point); "
        "ref += 1000, also with tuple coordinates; only content is compared (read from the raw lists with the operand's default).  "
        "Structural identity of the operand and aliasing of attribute / rank objects are C10's",
        "wide ranks: 20-48 coordinates in one rank (32-40 in two adjacent ranks), integer coordinates, no tuple-coordinate rank, "
        "not the operand of a preceding split; driven through swizzle, swap, flatten (+ unflatten), merge and split + flatten; "
        "merge functions as above (prod over up to 48 values is exact integer arithmetic)",
        "not generated: U-format ranks, halo splits",
    ],
}

STYLES_FLAT = ["tuple", "pair", "linear"]
STYLES_MERGE = ["absolute", "relative"]
SPLITS = ["uniform", "equal", "nonuniform", "unequal"]
CFUNCS = ["shift3", "scale2p1", "reverse"]
PFUNCS = ["scale3", "coordmix", "scale3box"]
# rank ids of more than one character (None = the single letters K, M, N, ..): numbered, words, and the dotted ids splits leave
ID_SETS = {"numbered": ["K0", "M1", "N2", "P3", "Q4", "R5"], "words": ["batch", "chan", "row", "col", "tap", "lane"],
           "dotted": ["K.1", "K.0", "M.1", "M.0", "N", "P.0"]}
PRE_KINDS = ("swizzle", "swap", "flatten")      # transforms also driven on operands that are the result of a split
UPDATE_BY = 1000       # amount accumulated into an element by the in-place update of a result / an operand (clause result-updated)
SPLIT_METH = {"uniform": "splitUniform", "equal": "splitEqual", "nonuniform": "splitNonUniform", "unequal": "splitUnEqual"}


# ------------------------------------------------------------------------------------------
# named functions (replayable)
# ------------------------------------------------------------------------------------------
def _cmap(name):
    return {"shift3": lambda c: c + 3, "scale2p1": lambda c: 2 * c + 1, "reverse": lambda c: 11 - c}[name]


def _pmap(name, default):
    if name in ("scale3", "scale3box"):
        return lambda c, v: default + (v - default) * 3
    return lambda c, v: default + (v - default) * (c + 2)


def _merge_fn(name):
    if name is None:
        return None
    if name == "sum":
        return lambda ps: Payload(sum(unbox(p) for p in ps))
    if name == "max":
        return lambda ps: Payload(max(unbox(p) for p in ps))
    if name == "min":
        return lambda ps: Payload(min(unbox(p) for p in ps))
    if name == "prod":
        def prod(ps):
            r = 1
            for p in ps:
                r *= unbox(p)
            return Payload(r)
        return prod
    if name == "count":
        return lambda ps: Payload(100 + len(list(ps)))
    raise ValueError(name)


def _reduce(name, vals):
    if name in (None, "sum"):
        return sum(vals)
    if name == "max":
        return max(vals)
    if name == "min":
        return min(vals)
    if name == "prod":
        r = 1
        for v in vals:
            r *= v
        return r
    if name == "count":
        return 100 + len(vals)
    raise ValueError(name)


# ------------------------------------------------------------------------------------------
# generation
# ------------------------------------------------------------------------------------------
def _dl_choices(D):
    return [(d, l) for l in range(1, D) for d in range(0, D - l)]


def _tree(rng, D, default=0, dirty=0.0, p=0.7, positive=False, ext=None):
    ext = ext or [rng.randint(2, 4 if D < 4 else 3) for _ in range(D)]
    vals = [1, 2, 3, 5, 7, 4] if positive else list(gen.VALUES) + ([0] if default != 0 else [])
    vals = [v for v in vals if v != default]
    spec = gen.rand_tree_spec(rng, ext, p, dirty, default, vals)
    return spec, ext


TUPLE_KINDS = ("swizzle", "swap", "flatten", "merge")      # transforms also driven on operands with a tuple-coordinate rank
POST_KINDS = ("swizzle", "swap", "flatten", "merge")       # tensor results that are re-used as the operand of a split + flatten
WIDE_KINDS = ("swizzle", "swap", "flatten", "merge", "splitflat")      # transforms also driven on trees with a wide rank


def _jlist(c):
    return [_jlist(e) for e in c] if isinstance(c, tuple) else c


def _flatten_spec(spec, d, l, style):
    """Tree spec in which the ranks d .. d+l of `spec` are replaced by ONE rank whose coordinates are the `style`
    (tuple / pair) combination of theirs - built on the spec by the reference map `_combine`, not by the library.
    Zero-length fibers strictly inside the combined ranks disappear; everything below is kept verbatim."""
    if d > 0:
        return [[c, _flatten_spec(p, d - 1, l, style)] for c, p in spec]
    out = []

    def walk(f, cs):
        for c, p in f:
            if len(cs) == l:
                out.append([_jlist(_combine(cs + [gen.tup(c)], style, None)), p])
            else:
                walk(p, cs + [gen.tup(c)])
    walk(spec, [])
    return out


def _tuple_tree(rng, D, tr, tl, tstyle, default=0, dirty=0.0, p=0.7, positive=False):
    """A tree of depth D whose rank `tr` already carries tuple coordinates (as left behind by an earlier tuple / pair
    flattening of tl + 1 integer ranks).  Returns (spec, extents with the tuple rank's shape in list form, info)."""
    ext = [rng.randint(2, 3 if D + tl > 3 else 4) for _ in range(D + tl)]
    base, _ = _tree(rng, D + tl, default, dirty, p, positive, ext=ext)
    spec = _flatten_spec(base, tr, tl, tstyle)
    grp = tuple(ext[tr:tr + tl + 1])
    ext_t = ext[:tr] + [_jlist(_combine(list(grp), tstyle, None))] + ext[tr + tl + 1:]
    return spec, ext_t, {"tr": tr, "tl": tl, "tstyle": tstyle}


def _tfamily(D):
    """Fixed family of depth-D trees with one tuple-coordinate rank (every position, tuple and pair nesting)."""
    r = random.Random(9100 + D)
    fam = []
    for tr in range(D):
        for tstyle in ("tuple", "pair"):
            for tl in ((1, 2) if D == 2 else (1,)):
                for default, dirty, p, shaped in ((0, 0.0, 0.8, True), (7 if tr % 2 else 0, 0.5, 0.75, False)):
                    spec, ext, info = _tuple_tree(r, D, tr, tl, tstyle, default, dirty, p)
                    fam.append(dict(info, spec=spec, depth=D, default=default, shape=ext if shaped else None))
                    if not shaped:
                        fam[-1]["ids"] = ID_SETS[("numbered", "words", "dotted")[(tr + tl) % 3]][:D + tl]
    return fam


def _systematic_tuple():
    for D in (2, 3):
        for ti, base in enumerate(_tfamily(D)):
            for perm in itertools.permutations(range(D)):
                yield dict(base, kind="swizzle", perm=list(perm))
            for d in range(D - 1):
                for mode in ("tensor", "fiber" if d == 0 else "below"):
                    yield dict(base, kind="swap", d=d, mode=mode)
            for d, l in _dl_choices(D):
                for style in STYLES_FLAT[:2]:
                    for mode in ("tensor", "fiber", "below"):
                        if mode == "below" and d == 0:
                            continue
                        yield dict(base, kind="flatten", d=d, l=l, style=style, mode=mode)
                for fn in (None, "max"):
                    c = dict(base, kind="merge", d=d, l=l, style="absolute", fn=fn, mode=("tensor", "fiber")[(ti + d + l) % 2])
                    if _merge_legal(c):
                        yield c


def _family(D):
    """A fixed family of trees of depth D used by the systematic sweeps (independent of VERIF_SEED)."""
    r = random.Random(9000 + D)
    fam = []
    for default, dirty, p, shaped in ((0, 0.0, 0.8, True), (0, 0.6, 0.7, False), (7, 0.5, 0.7, True), (0, 0.4, 0.9, True)):
        spec, ext = _tree(r, D, default, dirty, p)
        fam.append({"spec": spec, "depth": D, "default": default, "shape": ext if shaped else None})
    fam.append({"spec": [], "depth": D, "default": 0, "shape": [2] * D})
    for i, name in ((1, "numbered"), (2, "dotted"), (3, "words")):
        fam[i]["ids"] = ID_SETS[name][:D]
    return fam


def _wide_ext(rng, D, two=False):
    """Extents of a depth-D tree one rank of which (any position) is wide: 20-48 coordinates, so that a merge of that rank
    makes up to 48 points / sub-fibers collide at one coordinate.  `two`: the rank below it is wide as well (a 'relative'
    merge needs both for a wide collision: m + n = c has min(M, N) solutions); the remaining extents are 2-3."""
    if two:
        D = min(D, 3)
        w = rng.randrange(D - 1)
        ext = [2] * D
        ext[w], ext[w + 1] = rng.randint(32, 40), rng.randint(32, 40)
        return ext
    ext = [rng.randint(2, 3) if D < 4 else 2 for _ in range(D)]
    ext[rng.randrange(D)] = rng.randint(20, 48)
    return ext


def _wfamily():
    """Fixed family of trees with a wide rank (every position of the wide rank at depth 2-3, the top rank at depth 4, two
    adjacent wide ranks at depth 2-3); positive values and default 0, so that max is a legal merge function above the leaf."""
    r = random.Random(9300)
    fam = []
    for k, ext in enumerate(([34, 4], [4, 34], [36, 36], [34, 3, 3], [3, 34, 3], [3, 3, 34], [36, 36, 2], [2, 36, 36],
                             [40, 2, 3], [34, 2, 2, 2], [2, 34, 2, 2], [32, 3, 2, 2])):
        dirty = (0.0, 0.2)[k % 2]
        spec, _ = _tree(r, len(ext), 0, dirty, 0.95, positive=True, ext=ext)
        fam.append({"spec": spec, "depth": len(ext), "default": 0, "shape": ext if k % 3 else None, "wide": True})
        if k % 4 == 2:
            fam[-1]["ids"] = ID_SETS["numbered"][:len(ext)]
    return fam


def _systematic_wide():
    for ti, base in enumerate(_wfamily()):
        D = base["depth"]
        perms = list(itertools.permutations(range(D)))
        for perm in perms if D < 4 else perms[1::5]:
            yield dict(base, kind="swizzle", perm=list(perm))
        for d in range(D - 1):
            yield dict(base, kind="swap", d=d, mode=("tensor", "fiber" if d == 0 else "below")[(ti + d) % 2])
        for d, l in _dl_choices(D):
            for si, style in enumerate(STYLES_FLAT):
                if style == "linear" and base["shape"] is None:
                    continue
                yield dict(base, kind="flatten", d=d, l=l, style=style, mode=("tensor", "fiber")[(ti + d + l + si) % 2])
            for style in STYLES_MERGE:
                for fi, fn in enumerate((None, "max", "count", "min")):
                    c = dict(base, kind="merge", d=d, l=l, style=style, fn=fn, mode=("tensor", "fiber")[(ti + d + l + fi) % 2])
                    if _merge_legal(c):
                        yield c


def _pre_tree(rng, D, ds, default=0, dirty=0.0, p=0.7):
    """A tree of depth D - 1 whose rank `ds` is wide enough to be split into several partitions (the operand of the
    transform is the result of that split and has depth D)."""
    ext = [rng.randint(2, 3) for _ in range(D - 1)]
    ext[ds] = rng.randint(4, 6)
    return _tree(rng, D - 1, default, dirty, p, ext=ext)


def _post(i, D=None):
    """Deterministic choice of the re-use step (split kind / argument / index of the integer rank) from a running index."""
    sk = SPLITS[i % 4]
    return {"split": sk, "arg": _split_arg(sk, 2 + (i // 4) % 2), "d": i // 2}


def _pfamily(D):
    """Fixed family of (tree of depth D - 1, split) pairs: every split depth, split kinds, absolute and relative."""
    r = random.Random(9200 + D)
    fam = []
    for ds in range(D - 1):
        for si, sk in enumerate(SPLITS if D == 3 else ("uniform", "unequal")):
            for rel in (False, True):
                k = len(fam)
                default, dirty, p, shaped = ((0, 0.0, 0.85, True), (7, 0.4, 0.75, False), (0, 0.5, 0.8, True))[k % 3]
                spec, ext = _pre_tree(r, D, ds, default, dirty, p)
                base = {"spec": spec, "depth": D, "default": default, "shape": ext if shaped else None,
                        "pre": {"split": sk, "arg": _split_arg(sk, 2 + (k + si) % 2), "d": ds, "rel": rel}}
                if k % 4 == 1:
                    base["ids"] = ID_SETS["numbered"][:D - 1]
                fam.append(base)
    return fam


def _systematic_pre():
    n = 0
    for D in (3, 4):
        for base in _pfamily(D):
            for perm in itertools.permutations(range(D)):
                n += 1
                yield dict(base, kind="swizzle", perm=list(perm), post=_post(n))
            for d in range(D - 1):
                n += 1
                yield dict(base, kind="swap", d=d, mode="tensor", post=_post(n))
            for d, l in _dl_choices(D):
                for style in STYLES_FLAT[:2]:
                    n += 1
                    yield dict(base, kind="flatten", d=d, l=l, style=style, mode="tensor", post=_post(n))


def _systematic():
    for D in (2, 3, 4):
        ids = gen.rank_ids_for(D)
        fam = _family(D)
        for ti, base in enumerate(fam):
            for perm in itertools.permutations(range(D)):
                yield dict(base, kind="swizzle", perm=list(perm))
            for d in range(D - 1):
                for mode in ("tensor", "fiber" if d == 0 else "below"):
                    yield dict(base, kind="swap", d=d, mode=mode)
            for d, l in _dl_choices(D):
                for style in STYLES_FLAT:
                    for mode in ("tensor", "fiber", "below"):
                        if mode == "below" and d == 0:
                            continue
                        if style == "linear" and base["shape"] is None:
                            continue
                        yield dict(base, kind="flatten", d=d, l=l, style=style, mode=mode)
                for style in STYLES_MERGE:
                    for fn in (None, "max", "min", "prod", "count", "sum"):
                        c = dict(base, kind="merge", d=d, l=l, style=style, fn=fn, mode=("tensor", "fiber")[(ti + d + l) % 2])
                        if _merge_legal(c):
                            yield c
            for d in range(D):
                for sk in SPLITS:
                    for rel in (False, True):
                        yield dict(base, kind="splitflat", d=d, split=sk, arg=_split_arg(sk, 2 + (d + ti) % 2), rel=rel,
                                   mode=("tensor", "fiber")[(ti + d) % 2])
                for fn in CFUNCS:
                    for mode in ("tensor", "fiber"):
                        yield dict(base, kind="updcoords", d=d, fn=fn, mode=mode, new_shape=(None, 32)[(d + ti) % 2])
            for fn in PFUNCS:
                for mode in ("tensor", "fiber"):
                    yield dict(base, kind="updpay", fn=fn, mode=mode)
        del ids


def _split_arg(sk, n):
    if sk == "uniform":
        return n
    if sk == "equal":
        return n
    if sk == "nonuniform":
        return [0, n, n + 1]
    return [1, n]


def _positive_only(case):
    return (all(v > 0 for v in gen.content_of_spec(case["spec"], 0).values())
            and all(v is None or v > 0 for _, v in case.get("pokes") or []))


AGAIN = ("tuple", "pair", "merge")       # second transform applied to a flattened tensor before it is unflattened


def _again_legal(c):
    """A flattened tensor (tuple / pair) that still has a rank below the combined one can be flattened / merged again at the
    same depth before it is unflattened."""
    return (c["kind"] == "flatten" and c["mode"] == "tensor" and c["style"] in ("tuple", "pair")
            and c["d"] + c["l"] < c["depth"] - 1)


def _merge_legal(c):
    """Restrict (merge_fn, tree) to what the statement covers (see SPEC assumptions): colliding points are reduced with
    merge_fn - only the points that are there, also when whole sub-fibers collide above the leaf rank - so every
    associative and commutative function and every leaf default is legal at every depth; `count` (not associative) only
    for a single merged level."""
    if c["fn"] == "count" and c["l"] != 1:
        return False
    return True


def generate(rng, tier, shard, nshards, mon):
    idx = 0
    for case in itertools.chain(_systematic(), _systematic_tuple(), _systematic_pre(), _systematic_wide()):
        if idx % nshards == shard:
            case["sys"] = True
            if "post" not in case and idx % 3 == 0 and case["kind"] in POST_KINDS and case.get("mode", "tensor") == "tensor":
                case["post"] = _post(idx // 3)
            if _again_legal(case):
                case["again"] = AGAIN[idx % len(AGAIN)]
            yield case
        idx += 1
    mon.exhaustive["all (transform, depth, levels, style, entry point, permutation) over the fixed tree family"] = True
    mon.exhaustive["all (swizzle, swap, tuple/pair flatten, absolute merge; depth, levels, entry point) x every position and "
                   "nesting of one tuple-coordinate rank, depth 2-3"] = True
    mon.exhaustive["all (swizzle permutation, swap depth, tuple/pair flatten (depth, levels)) on the result of a split "
                   "(every split depth; kinds; absolute / relative coordinates), depth 3-4"] = True
    mon.exhaustive["all (swizzle permutation (depth 2-3), swap depth, flatten (depth, levels, style), merge (depth, levels, style; "
                   "sum, max, count, min where legal)) over a fixed family of trees with one or two wide ranks (32-40 coordinates)"] = True
    nrand = (8000 if tier == "quick" else 400000) // nshards
    for _ in range(nrand):
        yield _random_case(rng)


def _random_case(rng):
    D = rng.choice([2, 2, 3, 3, 3, 4])
    default = rng.choice([0, 0, 0, 7])
    dirty = rng.choice([0.0, 0.3, 0.6])
    p = rng.choice([0.4, 0.7, 0.95])
    kind = rng.choice(["swizzle", "swizzle", "swap", "flatten", "flatten", "flatten", "merge", "merge", "splitflat",
                       "updcoords", "updpay"])
    positive = kind == "merge" and rng.random() < 0.4
    tinfo = pre = None
    wide = False
    if kind in PRE_KINDS and rng.random() < 0.2:
        D = rng.choice([3, 3, 4])
        sk = rng.choice(SPLITS)
        n = rng.randint(2, 3)
        pre = {"split": sk, "d": rng.randrange(D - 1), "rel": rng.random() < 0.3,
               "arg": n if sk in ("uniform", "equal") else ([0] + sorted(rng.sample(range(1, 6), rng.randint(1, 2))) if sk == "nonuniform"
                                                            else [rng.randint(1, 2) for _ in range(rng.randint(1, 3))])}
        spec, ext = _pre_tree(rng, D, pre["d"], default, dirty, p)
    elif kind in TUPLE_KINDS and rng.random() < 0.25:
        tl = rng.choice([1, 1, 2]) if D < 4 else 1
        spec, ext, tinfo = _tuple_tree(rng, D, rng.randrange(D), tl, rng.choice(["tuple", "pair"]), default, dirty, p, positive)
    elif kind in WIDE_KINDS and rng.random() < (0.15 if kind == "merge" else 0.06):
        # a wide rank: the number of points / sub-fibers that meet at one merged coordinate is not bounded by a small extent
        wide = True
        p = rng.choice([0.7, 0.95, 0.95])
        spec, ext = _tree(rng, D, default, dirty, p, positive, ext=_wide_ext(rng, D, two=(kind == "merge" and rng.random() < 0.3)))
        D = len(ext)
    else:
        spec, ext = _tree(rng, D, default, dirty, p, positive)
    if rng.random() < 0.03:
        spec = []
    r = rng.random()
    if tinfo:
        shape = ext if r < 0.6 else None
    else:
        shape = ext if r < 0.55 else ([e + rng.randint(0, 2) for e in ext] if r < 0.7 else None)
    case = dict(tinfo or {}, kind=kind, spec=spec, depth=D, default=default, shape=shape)
    if pre:
        case["pre"] = pre
    if wide:
        case["wide"] = True
    if rng.random() < 0.5:
        name = rng.choice(sorted(ID_SETS))
        off = rng.randrange(2)
        case["ids"] = ID_SETS[name][off:off + len(ext) + (tinfo["tl"] if tinfo else 0)]
    if kind == "swizzle":
        perm = list(range(D))
        rng.shuffle(perm)
        case["perm"] = perm
    elif kind == "swap":
        d = rng.randrange(D - 1)
        case.update(d=d, mode="tensor" if pre else rng.choice(["tensor", "fiber" if d == 0 else "below"]))
    elif kind == "flatten":
        d, l = rng.choice(_dl_choices(D))
        style = rng.choice(STYLES_FLAT if shape is not None and not tinfo and not pre else STYLES_FLAT[:2])
        mode = "tensor" if pre else rng.choice(["tensor", "fiber", "below"] if d > 0 else ["tensor", "fiber"])
        case.update(d=d, l=l, style=style, mode=mode)
    elif kind == "merge":
        d, l = rng.choice(_dl_choices(D))
        case.update(d=d, l=l, style=rng.choice(STYLES_MERGE[:1] if tinfo else STYLES_MERGE), mode=rng.choice(["tensor", "fiber"]),
                    fn=rng.choice([None, None, "sum", "max", "min", "prod", "count"]))
        if not _merge_legal(case):
            case["fn"] = None
        if not _merge_legal(case):
            case["d"] = D - 1 - l       # non-zero default: only collisions of points (merge ends at the leaf rank)
    elif kind == "splitflat":
        sk = rng.choice(SPLITS)
        n = rng.randint(1, 3)
        arg = n if sk in ("uniform", "equal") else ([0] + sorted(rng.sample(range(1, 5), rng.randint(1, 2))) if sk == "nonuniform"
                                                     else [rng.randint(1, 2) for _ in range(rng.randint(1, 2))])
        case.update(d=rng.randrange(D), split=sk, arg=arg, rel=rng.random() < 0.4, mode=rng.choice(["tensor", "fiber"]))
    elif kind == "updcoords":
        case.update(d=rng.randrange(D), fn=rng.choice(CFUNCS), mode=rng.choice(["tensor", "fiber"]),
                    new_shape=rng.choice([None, 32]))
    else:
        case.update(fn=rng.choice(PFUNCS), mode=rng.choice(["tensor", "fiber"]))
    if kind in POST_KINDS and case.get("mode", "tensor") == "tensor" and rng.random() < (0.6 if pre else 0.3):
        sk = rng.choice(SPLITS)
        case["post"] = {"split": sk, "arg": _split_arg(sk, rng.randint(1, 3)), "d": rng.randrange(4)}
    if case.get("mode", "tensor") == "tensor" and not tinfo and not pre and rng.random() < 0.3:
        case["pokes"] = _pokes(rng, D, ext, shape, default)
        if kind == "merge" and not _merge_legal(case):
            del case["pokes"]
    if _again_legal(case) and rng.random() < 0.6:
        case["again"] = rng.choice(AGAIN)
    if kind == "updcoords" and shape is None and (case.get("pokes") or not spec):
        case["new_shape"] = 32      # the rank's shape is unknown / stale: updateCoords is documented to take it as new_shape
    return case


def _pokes(rng, D, ext, shape, default):
    """Point writes applied through getPayloadRef after construction (None = reference created, nothing written:
    leaves an explicit-default path).  Inside the shape when one is declared, anywhere otherwise."""
    out = []
    for _ in range(rng.randint(1, 3)):
        bound = shape if shape is not None else [e + 2 for e in ext]
        pt = [rng.randrange(b) for b in bound]
        v = rng.choice([None, None, 1, 4, -3])
        out.append([pt, None if v == default else v])
    return out


# ------------------------------------------------------------------------------------------
# coordinate maps (the reference model)
# ------------------------------------------------------------------------------------------
def _combine(cs, style, shapes):
    if style == "tuple":
        out = ()
        for c in cs:
            out += c if isinstance(c, tuple) else (c,)
        return out
    if style == "pair":
        r = cs[-1]
        for c in reversed(cs[:-1]):
            r = (c, r)
        return r
    if style == "linear":
        r = 0
        for c, s in zip(cs, shapes):
            r = r * s + c
        return r
    if style == "absolute":
        return cs[-1]
    if style == "relative":
        return sum(cs)
    raise ValueError(style)


def _img_flatten(cont, d, l, style, shape):
    out = {}
    for pt, v in cont.items():
        q = pt[:d] + (_combine(pt[d:d + l + 1], style, shape[d:d + l + 1] if shape else None),) + pt[d + l + 1:]
        out.setdefault(q, []).append((pt, v))
    return out


def _img_perm(cont, perm):
    return {tuple(pt[j] for j in perm): v for pt, v in cont.items()}


# ------------------------------------------------------------------------------------------
# judging
# ------------------------------------------------------------------------------------------
TAG_SKIP = "stored-empty-subtree-at-depth"          # a content-empty fiber with stored elements sits at the transform's depth
TAG_INNER = "empty-fiber-inside-merged-ranks"       # levels >= 2 and a zero-length fiber strictly inside the merged ranks
TAG_STALE = "stale-estimated-shape"                 # a stored coordinate lies outside the rank's (estimated) shape
TAG_EMPTY_EST = "empty-operand-estimated-shape"     # unflatten of an empty tensor whose shape is only estimated
TAG_DEEP3 = "three-fibers-collide-two-levels-above-leaf"   # >= 3 fibers meet at one merged coordinate, >= 2 fiber levels below


# input-class tags qualify a `raised` key only when the exception comes from a site that class can explain
TAG_SITES = {TAG_SKIP: ("_addFiber", "append"), TAG_INNER: ("_mergeRanksHelper", "_flattenCoords"),
             TAG_DEEP3: ("lambda", "_mergeToFibertree"), TAG_STALE: ("swizzleRanks",),
             TAG_EMPTY_EST: ("_unflattenRankIdsShape",)}


def _op_family(op):
    """Transform family of an entry point (flattenRanks is implemented by mergeRanks)."""
    m = op.split(":")[0].split(".")[-1]
    return "flatten|merge" if m in ("flattenRanks", "flattenRanksBelow", "mergeRanks") else m


def _class_key(op, tags, kind):
    """Key of a violation that falls into a recognised input class: family + class + failure kind."""
    return f"{_op_family(op)}:{'+'.join(sorted(tags))}:{kind}"


class _Skip(Exception):
    """The operand of the case could not be prepared (a precondition that is another property's failed)."""


class _Ctx:
    def __init__(self, mon, case):
        self.mon, self.case, self.default = mon, case, case["default"]
        self.note = ""              # appended to violation messages (operand class)
        self.no_containment = None  # reason why the result's declared shape is not judged against its stored coordinates
        self.ids = None             # rank ids of the tensor operand (what a round trip has to restore)
        self.no_reuse = None        # reason why a result of this case is not re-used as the operand of a split


def _raw_ids(t):
    """Rank ids read from the raw rank attributes."""
    return [rk._attrs.__dict__.get("_id") for rk in t.ranks]


def _root(x):
    return x.getRoot() if isinstance(x, Tensor) else x


def _lib_frame(exc):
    """Name of the innermost library function on the traceback (mechanism, not input)."""
    import traceback
    from fvmon import env
    repo = env.repo_path()
    name = "?"
    for fr in traceback.extract_tb(exc.__traceback__):
        if fr.filename.startswith(repo):
            name = fr.name
    return name.replace("<lambda>", "lambda")


def _key(parts, tags=()):
    return ":".join(list(parts) + sorted(tags))


def _call(ctx, op, desc, fn, *a, tags=(), **k):
    try:
        return True, fn(*a, **k)
    except BaseException as e:      # noqa  (the library calls sys.exit() on some paths)
        if isinstance(e, KeyboardInterrupt):
            raise
        desc += ctx.note
        site = _lib_frame(e)
        use = [t for t in tags if t not in TAG_SITES or site in TAG_SITES[t]]
        key = _class_key(op, use, "raised") if use else _key([op, "raised", f"{type(e).__name__}@{site}"])
        ctx.mon.violation(key, f"{desc} raised {type(e).__name__}@{site}: {e}")
        return False, None


def _inside(c, s):
    """Coordinate `c` lies inside shape `s` (int in [0, s); tuples component-wise); None = not comparable."""
    if isinstance(c, bool) or isinstance(s, bool):
        return None
    if isinstance(c, int) and isinstance(s, int):
        return 0 <= c < s
    if isinstance(c, tuple) and isinstance(s, tuple) and len(c) == len(s):
        rs = [_inside(a, b) for a, b in zip(c, s)]
        return None if any(r is None for r in rs) else all(rs)
    return None


def _outside_declared_shape(t):
    """Raw well-formedness of a tensor against its own declaration: stored coordinates (read from the raw lists of
    the tree, by depth) that lie outside the shape the tensor itself declares as authoritative for that rank.
    Ranks whose shape is only estimated, absent, or not comparable with the coordinates are not judged."""
    shapes = []
    for rk in t.ranks:
        a = rk._attrs.__dict__
        shapes.append(a.get("_shape") if a.get("_estimated_shape") is False else None)
    bad = []
    level = [((), t.__dict__.get("_root"))]
    for i, sh in enumerate(shapes):
        nxt = []
        for path, f in level:
            if not isinstance(f, Fiber):
                continue
            for c, p in zip(f.coords, f.payloads):
                if sh is not None and _inside(c, sh) is False:
                    bad.append((i, path + (c,), sh))
                nxt.append((path + (c,), p))
        level = nxt
    return bad, sum(1 for sh in shapes if sh is not None)


def _judge(ctx, op, desc, res, expected, clause="content", style=None, tags=(), alt=None, ctags=(), cls_op=None, ids=None, alt_pred=None):
    """WF / RC of a result and its content (read with the operand's default) against the expected map.
    `tags` qualify WF/RC keys (and the content key of a malformed result), `ctags` the content key;
    `alt` = (name, content map) of a recognised wrong model; `ids` = rank ids a round trip has to restore
    (an equal tensor has equal rank ids)."""
    mon, default = ctx.mon, ctx.default
    desc += ctx.note
    ok = True
    mon.count("results_judged")
    if not isinstance(res, (Tensor, Fiber)):
        mon.violation(f"{op}:result-type", f"{desc} returned {type(res).__name__}")
        return False
    mon.count("wf_checked")
    probs = wfp = WF(res)
    if probs:
        ok = False
        kinds = "+".join(sorted({wf_kind(p) for p in probs}))
        mon.violation(_class_key(op, tags, "WF") if tags else _key([op, "WF", kinds]),
                      f"result of {desc} is not well formed ({kinds}): " + "; ".join(probs[:3]))
    else:
        mon.count("oracle_evals")
    if isinstance(res, Tensor):
        mon.count("rc_checked")
        probs = RC(res)
        if probs:
            ok = False
            kinds = "+".join(sorted({rc_kind(p) for p in probs}))
            mon.violation(_class_key(op, tags, "RC") if tags else _key([op, "RC", kinds]),
                          f"rank bookkeeping of the result of {desc} does not mirror its tree ({kinds}): " + "; ".join(probs[:3]))
        else:
            mon.count("oracle_evals")
        if wfp:
            pass
        elif ctx.no_containment:
            mon.count("containment_not_judged:" + ctx.no_containment)
        else:
            bad, nranks = _outside_declared_shape(res)
            if nranks:
                mon.count("containment_checked")
            if bad:
                ok = False
                i, pt, sh = bad[0]
                mon.violation(_key([op, "WF", "coordinate-outside-declared-shape"]),
                              f"result of {desc} stores {len(bad)} coordinate(s) outside the shape it declares as authoritative, "
                              f"e.g. rank {i} ({res.ranks[i].getId()}) declares {sh} and stores {pt}")
            elif nranks:
                mon.count("oracle_evals")
        if ids is not None:
            mon.count("rank_ids_checked")
            got_ids = _raw_ids(res)
            if got_ids != list(ids):
                ok = False
                mon.violation(_key([op, clause, "rank-ids-not-restored"]),
                              f"{desc}: the round trip does not restore an equal tensor: rank ids {got_ids}, operand had {list(ids)}")
            else:
                mon.count("oracle_evals")
    root = _root(res)
    if not isinstance(root, Fiber):
        mon.violation(f"{op}:result-type", f"{desc} returned a tensor whose root is {type(root).__name__}")
        return False
    got = content(root, default)
    parts = [op] + ([style] if style else []) + [clause]
    if got != expected:
        missing = [p for p in expected if p not in got]
        extra = [p for p in got if p not in expected]
        wrong = [p for p in expected if p in got and got[p] != expected[p]]
        if alt is not None and got == alt[1]:
            key = _class_key(op, (alt[0],), "content")
        elif alt_pred is not None and alt_pred[1](missing, extra, wrong):
            # a recognised input class + a disagreement of the recognised shape (mechanism-level key of a known finding)
            key = _class_key(op, (alt_pred[0],), "content")
        elif tuple(ctags) + (tuple(tags) if wfp else ()):
            key = _class_key(cls_op or op, tuple(ctags) + (tuple(tags) if wfp else ()), "content")
        else:
            key = _key(parts + ["mismatch"])
        mon.check(False, key,
                  f"{desc}: content differs from the image of the original: missing {missing[:4]} extra {extra[:4]} "
                  f"wrong values (point, got, expected) {[(p, got[p], expected[p]) for p in wrong[:4]]} "
                  f"({len(got)} points, expected {len(expected)})")
        ok = False
    else:
        mon.check(True, ":".join(parts), "")
    return ok


# ------------------------------------------------------------------------------------------
# operands
# ------------------------------------------------------------------------------------------
def _rank_ids(case):
    """Rank ids of the operand; a tuple-coordinate rank is named like a flattened rank (the list of the ids it combines)."""
    D, tr = case["depth"], case.get("tr")
    if case.get("pre"):
        D -= 1                      # the tensor that is split first
    if tr is None:
        return list(case.get("ids") or gen.rank_ids_for(D))[:D]
    tl = case["tl"]
    base = list(case.get("ids") or gen.rank_ids_for(D + tl))
    grp = base[tr:tr + tl + 1]
    return base[:tr] + [grp] + base[tr + tl + 1:]


def _shape(case):
    return None if case["shape"] is None else [gen.tup(e) for e in case["shape"]]


def _build_tensor(case):
    return gen.tensor_from_spec(case["spec"], _rank_ids(case), shape=_shape(case), default=case["default"])


def _build_fiber(case, need_shape=False):
    shape = _shape(case)
    if shape is None and need_shape:
        shape = [16] * case["depth"]
    return gen.fiber_from_spec(case["spec"], default=case["default"], shape=shape)


def _operand(ctx, mode, need_shape=False):
    """Build the operand (through public constructors and, for `pokes`, public point access), cross-check
    the raw observer against the spec, and return (operand, content, spec actually stored)."""
    case = ctx.case
    default = case["default"]
    x = _build_tensor(case) if mode == "tensor" else _build_fiber(case, need_shape)
    seen = content(_root(x), default)
    want = gen.content_of_spec(case["spec"], default)
    if seen != want:
        raise RuntimeError(f"harness: built tree content {seen} != spec content {want}")
    pokes = case.get("pokes") or []
    if pokes and mode == "tensor":
        for pt, v in pokes:
            ref = x.getPayloadRef(*pt)
            if v is not None:
                ref <<= v
        ctx.mon.count("poked_inputs")
        c0 = content(_root(x), default)
        stored = spec_of(_root(x))
    else:
        c0, stored = seen, case["spec"]
    if isinstance(x, Tensor):
        ids = _raw_ids(x)
        if ids != _rank_ids(case):
            raise RuntimeError(f"harness: built tensor has rank ids {ids}, asked for {_rank_ids(case)}")
        if any(len(i) > 1 for i in ids if isinstance(i, str)):
            ctx.mon.count("multichar_id_inputs")
    if case.get("pre") and mode == "tensor":
        x, c0, stored = _pre_split(ctx, x, c0, stored)
    if isinstance(x, Tensor):
        ctx.ids = _raw_ids(x)
        if case.get("post") and _outside_active(x):
            # e.g. the partitions of a relativeCoords split: relative coordinates, absolute active range (splitting is C08's)
            ctx.no_reuse = "operand-coordinate-outside-its-active-range"
    if isinstance(x, Tensor) and _outside_declared_shape(x)[0]:
        ctx.no_containment = "operand-outside-its-declared-shape"       # not generated (assumption 1)
    elif _stale_tag(x):
        # guard (decided: observed, not claimed - DESIGN 12.3): a *Below-style transform (e.g. Tensor.swapRanks(depth>0)) of a tensor whose
        # estimated shape is stale declares that stale estimate as authoritative on the ranks it does not touch
        ctx.no_containment = TAG_STALE
    if case.get("tr") is not None:
        ctx.mon.count("tuple_rank_inputs")
        ctx.mon.count(f"tuple_rank:{case['kind']}")
        ctx.note = f" [operand: rank {case['tr']} carries {case['tstyle']} coordinates of {case['tl'] + 1} combined ranks]"
    if stored != gen.canonical_spec(stored, default):
        ctx.mon.count("dirty_inputs")
    if not c0:
        ctx.mon.count("empty_inputs")
    return x, c0, stored


def _pre_split(ctx, t, c0, stored):
    """The operand of the transform is the result of a split of the built tensor.  The split is C08's: the case is
    dropped unless the split returned a well-formed tensor that holds every point of the original at its image."""
    pre, mon, default = ctx.case["pre"], ctx.mon, ctx.default
    ds, rel = pre["d"], pre["rel"]
    if _skip_tag(stored, ds, default):
        mon.count("pre_split_skipped:stored-empty-subtree")     # the split leaves such a sub-tree unsplit (C08's)
        raise _Skip()
    try:
        s = getattr(t, SPLIT_METH[pre["split"]])(pre["arg"], depth=ds, relativeCoords=rel)
    except BaseException as e:      # noqa
        if isinstance(e, KeyboardInterrupt):
            raise
        mon.count("pre_split_skipped:raised")
        raise _Skip()
    if not isinstance(s, Tensor) or WF(s) or RC(s):
        mon.count("pre_split_skipped:not-wf")
        raise _Skip()
    cs = content(_root(s), default)
    back = {pt[:ds] + ((pt[ds] + pt[ds + 1]) if rel else pt[ds + 1],) + pt[ds + 2:]: v for pt, v in cs.items()}
    if len(cs) != len(c0) or back != c0:
        mon.count("pre_split_skipped:not-a-partition")          # e.g. a point outside a stale estimated shape is dropped
        raise _Skip()
    mon.count("pre_split_inputs")
    mon.count(f"pre_split:{ctx.case['kind']}")
    if len({pt[:ds + 1] for pt in cs}) > len({pt[:ds] for pt in cs}):
        mon.count("pre_split_several_partitions")
    ctx.note = (f" [operand: result of {SPLIT_METH[pre['split']]}({pre['arg']}, depth={ds}, relativeCoords={rel}) "
                f"of a {_raw_ids(t)} tensor]")
    return s, cs, spec_of(_root(s))


def _int_ranks(t):
    """Depths of the ranks of a tensor whose stored coordinates are all integers (raw lists, by depth)."""
    out, level = [], [t.__dict__.get("_root")]
    for i in range(len(t.ranks)):
        fs = [f for f in level if isinstance(f, Fiber)]
        if all(isinstance(c, int) and not isinstance(c, bool) for f in fs for c in f.coords):
            out.append(i)
        level = [p for f in fs for p in f.payloads]
    return out


def _outside_active(t):
    """Some stored integer coordinate of the tensor lies outside the active range of its fiber (a split iterates the
    active range only)."""
    for rk in t.ranks:
        for f in rk.getFibers():
            if f.coords and all(isinstance(c, int) for c in (f.coords[0], f.coords[-1])):
                lo, hi = f.getActive()
                if not (isinstance(lo, int) and lo <= f.coords[0] and f.coords[-1] < hi):
                    return True
    return False


def _reuse(ctx, op, desc, r, exp, skip=None):
    """Every result is itself a well-formed tensor: a result that passed the oracle is used as the operand of a split
    followed by flatten('absolute'), which has to restore the result's content."""
    post, mon, default = ctx.case.get("post"), ctx.mon, ctx.default
    if not post or not isinstance(r, Tensor):
        return
    skip = skip or ctx.no_reuse or ctx.no_containment
    if skip:
        mon.count("reuse_not_judged:" + skip)       # same guards as for containment (stale shapes, ...)
        return
    # (Tensor.split* of a rank whose id is a list - a flattened / merged rank - raised TypeError in _splitGeneric until
    # repository fix bcc6b99; merged ranks are re-split too)
    ranks = list(_int_ranks(r))
    if not ranks or not exp:
        mon.count("reuse_not_judged:no-integer-rank-or-empty")
        return
    dd = ranks[post["d"] % len(ranks)]
    if _skip_tag(spec_of(_root(r)), dd, default):
        mon.count("reuse_not_judged:stored-empty-subtree")      # the split leaves such a sub-tree unsplit (C08's)
        return
    meth = SPLIT_METH[post["split"]]
    op = op + ":result-reused"
    desc = f"{meth}({post['arg']}, depth={dd}) then flattenRanks(depth={dd}, levels=1, 'absolute') of the result of {desc}"
    ok, s = _call(ctx, op, desc, getattr(r, meth), post["arg"], depth=dd)
    if not ok:
        return
    ok, f = _call(ctx, op, desc, s.flattenRanks, depth=dd, levels=1, coord_style="absolute")
    if not ok:
        return
    mon.count("results_reused")
    mon.count("roundtrips_checked")
    _judge(ctx, op, desc, f, exp, "split+flatten(absolute)")


def _bump(ctx, op, desc, x, cont):
    """Accumulate into up to three stored elements of `x` in place (the usual idiom: ref = x.getPayloadRef(*point);
    ref += v).  Returns the content `x` has to hold afterwards, or None when the update raised."""
    pts = list(cont)
    try:
        pts.sort()
    except TypeError:
        pass
    new = dict(cont)
    for pt in {pts[0], pts[len(pts) // 2], pts[-1]}:
        def upd(pt=pt):
            ref = x.getPayloadRef(*pt)
            ref += UPDATE_BY
        ok, _ = _call(ctx, op, desc, upd)
        if not ok:
            return None
        new[pt] += UPDATE_BY
    return new


def _updated(ctx, op, desc, r, exp, x, c0):
    """A result is a tensor (fiber) of its own: a later in-place update of elements of the result shows in the result and
    nowhere else - the operand `x` still holds its content `c0`, so transforming it again still gives the image of the
    original - and a later update of the operand does not show in the result.  Judged on results that passed the content
    oracle and are a new object.  Returns the contents (result, operand) after the updates."""
    mon, default = ctx.mon, ctx.default
    if r is x or not exp or not c0 or not isinstance(r, (Tensor, Fiber)):
        mon.count("update_not_judged:empty-or-in-place")
        return exp, c0
    mon.count("results_updated")
    uop = op + ":result-updated"
    udesc = f"in-place update (ref = getPayloadRef(point); ref += {UPDATE_BY}) of elements of the result of {desc}" + ctx.note
    exp2 = _bump(ctx, uop, udesc, r, exp)
    if exp2 is None:
        return exp, c0

    def diff(got, want):
        bad = [p for p in set(got) | set(want) if got.get(p) != want.get(p)]
        return f"{len(bad)} point(s) differ (point, holds, should hold) {[(p, got.get(p), want.get(p)) for p in bad[:4]]}"
    got = content(_root(r), default)
    mon.check(got == exp2, uop + ":mismatch", f"{udesc}: the result does not hold its content with the update: {diff(got, exp2)}")
    got0 = content(_root(x), default)
    mon.check(got0 == c0, uop + ":operand-changed",
              f"{udesc}: the update shows in the operand, which no longer holds its content (transforming it again is not the "
              f"image of the original): {diff(got0, c0)}")
    if got != exp2 or got0 != c0:
        return got, got0
    uop = op + ":operand-updated"
    udesc = f"in-place update (ref = getPayloadRef(point); ref += {UPDATE_BY}) of elements of the operand after {desc}" + ctx.note
    c02 = _bump(ctx, uop, udesc, x, c0)
    if c02 is None:
        return exp2, c0
    got = content(_root(r), default)
    mon.check(got == exp2, uop + ":result-changed",
              f"{udesc}: the update of the operand shows in the result, which no longer is the image of the content the "
              f"operand had: {diff(got, exp2)}")
    return got, content(_root(x), default)


def _fibers_at(spec, level):
    """Specs of all fibers at `level` (root = 0)."""
    cur = [spec]
    for _ in range(level):
        cur = [p for f in cur for _, p in f if isinstance(p, list)]
    return cur


def _skip_tag(stored, d, default):
    if d <= 0:
        return ()
    for f in _fibers_at(stored, d):
        if f and not gen.content_of_spec(f, default):
            return (TAG_SKIP,)
    return ()


def _inner_tag(stored, d, l):
    if l < 2:
        return ()
    for lev in range(d + 1, d + l):
        if any(len(f) == 0 for f in _fibers_at(stored, lev)):
            return (TAG_INNER,)
    return ()


def _stale_tag(t):
    """Raw check: some stored coordinate at rank i is >= that rank's recorded shape."""
    if not isinstance(t, Tensor):
        return ()
    for rk in t.ranks:
        sh = rk._attrs.__dict__.get("_shape")
        if isinstance(sh, int) and sh > 0:
            for f in rk.getFibers():
                if f.coords and isinstance(f.coords[-1], int) and f.coords[-1] >= sh:
                    return (TAG_STALE,)
        elif isinstance(sh, tuple):
            # the estimate for tuple coordinates is taken from the (lexicographically) largest coordinate only
            for f in rk.getFibers():
                if any(_inside(c, sh) is False for c in f.coords):
                    return (TAG_STALE,)
    return ()


def _next_operand(ctx, r):
    """A result that becomes the operand of the inverse transform: same input classes as for the first operand."""
    if ctx.no_containment is None and isinstance(r, Tensor) and _stale_tag(r):
        ctx.no_containment = TAG_STALE      # guard (decided: observed, not claimed - DESIGN 12.3) (see _operand)


def run_case(case, mon):
    kind = case["kind"]
    mon.count(f"kind:{kind}")
    if case["default"] != 0:
        mon.count("nonzero_default_inputs")
    if case.get("wide"):
        mon.count("wide_rank_inputs")
        mon.count(f"wide_rank:{kind}")
    ctx = _Ctx(mon, case)
    try:
        nt, npts = {"swizzle": _run_swizzle, "swap": _run_swap, "flatten": _run_flatten, "merge": _run_merge,
                    "splitflat": _run_splitflat, "updcoords": _run_updcoords, "updpay": _run_updpay}[kind](ctx)
    except _Skip:
        return
    if nt and npts >= 2:
        mon.nontrivial()


# -- swizzle ---------------------------------------------------------------------------------
def _run_swizzle(ctx):
    case, mon = ctx.case, ctx.mon
    perm = case["perm"]
    t, c0, stored = _operand(ctx, "tensor")
    ids = ctx.ids
    new_ids = [ids[j] for j in perm]
    op = "Tensor.swizzleRanks"
    desc = f"swizzleRanks({new_ids}) of a {ids} tensor"
    ok, r = _call(ctx, op, desc, t.swizzleRanks, new_ids, tags=_stale_tag(t))
    if not ok:
        return False, len(c0)
    exp = _img_perm(c0, perm)
    good = _judge(ctx, op, desc, r, exp)
    mon.state(("swizzle", len(perm), perm, sorted(map(str, exp))[:6]))
    _next_operand(ctx, r)
    ok, b = _call(ctx, op + ":inverse", desc + " then back", r.swizzleRanks, list(ids), tags=_stale_tag(r))
    goodb = False
    if ok:
        mon.count("roundtrips_checked")
        goodb = _judge(ctx, op + ":inverse", desc + " then back", b, c0, "roundtrip", ids=ids)
    if good:
        _reuse(ctx, op, desc, r, exp)
        now = exp
        if goodb:
            now = _updated(ctx, op + ":inverse", desc + " then back", b, c0, r, exp)[1]
        _updated(ctx, op, desc, r, now, t, c0)
    return good and set(exp) != set(c0), len(c0)


# -- swap ------------------------------------------------------------------------------------
def _run_swap(ctx):
    case, mon = ctx.case, ctx.mon
    d, mode, D = case["d"], case["mode"], case["depth"]
    perm = list(range(D))
    perm[d], perm[d + 1] = perm[d + 1], perm[d]
    if mode == "tensor":
        t, c0, stored = _operand(ctx, "tensor")
        if case.get("tr") in (d, d + 1) and d > 0 and any(not gen.content_of_spec(f, ctx.default)
                                                          for f in _fibers_at(stored, d)):
            # guard (decided: observed, not claimed - DESIGN 12.3) (same mechanism as below): when the two ranks differ in coordinate type the
            # un-swapped sub-tree makes Tensor.fromFiber compare an integer with a tuple (TypeError in Rank.append)
            mon.count("guard_skipped")
            return False, len(c0)
        if any(not gen.content_of_spec(f, ctx.default) for f in _fibers_at(stored, d)):
            # guard (decided: observed, not claimed - DESIGN 12.3): a swap leaves a content-empty sub-tree at its depth (a zero-length fiber
            # included) as it is - content is unaffected, but its explicit defaults / empty fibers / shape attributes
            # keep the old rank order in the result
            ctx.no_containment = ctx.no_containment or "swap-leaves-content-empty-subtree-unswapped"
        exp = _img_perm(c0, perm)
        op, desc = "Tensor.swapRanks", f"Tensor.swapRanks(depth={d})"
        ok, r = _call(ctx, op, desc, t.swapRanks, depth=d)
        if not ok:
            return False, len(c0)
        good = _judge(ctx, op, desc, r, exp)
        _next_operand(ctx, r)
        if good:
            _reuse(ctx, op, desc, r, exp)
        ok, b = _call(ctx, op + ":twice", desc + " twice", r.swapRanks, depth=d)
    elif mode == "fiber":
        f, c0, stored = _operand(ctx, "fiber")
        exp = _img_perm(c0, perm)
        if not c0:
            mon.count("guard_skipped")
            return False, 0
        op, desc = "Fiber.swapRanks", "Fiber.swapRanks()"
        ok, r = _call(ctx, op, desc, f.swapRanks)
        if not ok:
            return False, len(c0)
        good = _judge(ctx, op, desc, r, exp)
        ok, b = _call(ctx, op + ":twice", desc + " twice", r.swapRanks)
    else:
        f, c0, stored = _operand(ctx, "fiber")
        exp = _img_perm(c0, perm)
        op, desc = "Fiber.swapRanksBelow", f"Fiber.swapRanksBelow(depth={d - 1})"
        ok, _ = _call(ctx, op, desc, f.swapRanksBelow, depth=d - 1)
        if not ok:
            return False, len(c0)
        good = _judge(ctx, op, desc, f, exp)
        ok, _ = _call(ctx, op + ":twice", desc + " twice", f.swapRanksBelow, depth=d - 1)
        b = f
    mon.state(("swap", D, d, mode, sorted(map(str, exp))[:6]))
    goodb = False
    if ok:
        mon.count("roundtrips_checked")
        goodb = _judge(ctx, op + ":twice", desc + " twice", b, c0, "roundtrip", ids=ctx.ids if mode == "tensor" else None)
    if good and mode != "below":
        now = exp
        if goodb:
            now = _updated(ctx, op + ":twice", desc + " twice", b, c0, r, exp)[1]
        _updated(ctx, op, desc, r, now, t if mode == "tensor" else f, c0)
    return good and set(exp) != set(c0), len(c0)


# -- flatten / unflatten -----------------------------------------------------------------------
def _run_flatten(ctx):
    case, mon = ctx.case, ctx.mon
    d, l, style, mode, D = case["d"], case["l"], case["style"], case["mode"], case["depth"]
    shape = case["shape"]
    x, c0, stored = _operand(ctx, "tensor" if mode == "tensor" else "fiber", need_shape=(style == "linear"))
    groups = _img_flatten(c0, d, l, style, shape if shape else [16] * D)
    if any(len(g) > 1 for g in groups.values()):
        raise RuntimeError("harness: flatten image is not injective")
    exp = {q: g[0][1] for q, g in groups.items()}
    tags = _skip_tag(stored, d, ctx.default)
    rtags = tags + _inner_tag(stored, d, l)
    if mode == "tensor":
        op, desc = "Tensor.flattenRanks", f"Tensor.flattenRanks(depth={d}, levels={l}, coord_style={style!r})"
        ok, r = _call(ctx, op, desc, x.flattenRanks, depth=d, levels=l, coord_style=style, tags=rtags)
    elif mode == "fiber":
        op, desc = "Fiber.flattenRanks", f"Fiber.flattenRanks(depth={d}, levels={l}, style={style!r})"
        ok, r = _call(ctx, op, desc, x.flattenRanks, depth=d, levels=l, style=style, tags=rtags)
    else:
        op, desc = "Fiber.flattenRanksBelow", f"Fiber.flattenRanksBelow(depth={d - 1}, levels={l}, style={style!r})"
        ok, _ = _call(ctx, op, desc, x.flattenRanksBelow, depth=d - 1, levels=l, style=style, tags=rtags)
        r = x
    if not ok:
        return False, len(c0)
    ctags = _inner_tag(stored, d, l) if ctx.default != 0 else ()
    good = _judge(ctx, op, desc, r, exp, style=style, tags=tags, ctags=ctags)
    mon.state(("flatten", D, d, l, style, mode, sorted(map(str, exp))[:6]))
    noreuse = None
    now = exp       # content of the flattened result (changes when the round trip's result and then `r` are updated in place)
    if d > 0 and any(not gen.content_of_spec(f, ctx.default) for f in _fibers_at(stored, d)):
        # guard (decided: observed, not claimed - DESIGN 12.3, as for swaps): unflatten leaves a content-empty fiber at its depth as it
        # is, and the rank takes the flattened (tuple) shape / active range from it
        noreuse = "unflatten-leaves-content-empty-subtree"
    tr = case.get("tr")
    if good and case.get("again") and isinstance(r, Tensor):
        _again(ctx, op, desc, r, exp, d, case["again"])
    if style == "tuple" and tr is not None and d <= tr < d + l:
        # a flat tuple cannot tell a tuple coordinate of an upper combined rank from separate coordinates: not invertible
        mon.count("tuple_unflatten_not_invertible_skipped")
    elif style in ("tuple", "pair") and good:
        if mode == "tensor":
            uop, udesc = "Tensor.unflattenRanks", f"Tensor.unflattenRanks(depth={d}, levels={l}, style={style!r}) of the flattened tensor"
            utags = ()
            _next_operand(ctx, r)
            if not exp and case["shape"] is None:
                utags = (TAG_EMPTY_EST,)
            ok, u = _call(ctx, uop, udesc, r.unflattenRanks, depth=d, levels=l, style=style, tags=utags)
        elif d == 0:
            if not r.coords:
                mon.count("guard_skipped")
                return good and bool(c0), len(c0)
            uop, udesc = "Fiber.unflattenRanks", f"Fiber.unflattenRanks(levels={l}) of the {style}-flattened fiber"
            ok, u = _call(ctx, uop, udesc, r.unflattenRanks, levels=l)
        else:
            uop, udesc = "Fiber.unflattenRanksBelow", f"Fiber.unflattenRanksBelow(depth={d - 1}, levels={l}) of the {style}-flattened fiber"
            ok, _ = _call(ctx, uop, udesc, r.unflattenRanksBelow, depth=d - 1, levels=l)
            u = r
        if ok:
            mon.count("roundtrips_checked")
            rids = ctx.ids if mode == "tensor" else None
            if rids is not None and tr is not None and d <= tr < d + l:
                # observed, not claimed (DESIGN 12.3): the id of a flattened rank is a flat list, so after a 'pair' flattening whose
                # upper combined rank already has a list id ([[K, M], N] -> [K, M, N]) unflatten restores the coordinates but
                # names the ranks K and [M, N]
                mon.count("rank_ids_not_judged:upper-combined-rank-has-list-id")
                rids = None
            # a flattened fiber that took its default from an empty last child (class TAG_INNER) is then mis-seen as empty
            if _judge(ctx, uop, udesc, u, c0, "roundtrip", style=style, ctags=ctags, cls_op=op, ids=rids):
                if mode == "tensor":
                    _reuse(ctx, uop, udesc, u, c0, skip=noreuse)
                if u is r:
                    now = c0        # unflattened in place (*Below form): the flattened fiber now holds the original content
                else:
                    now = _updated(ctx, uop, udesc, u, c0, r, exp)[1]
            elif u is r:
                now = None
        elif u is r:
            now = None              # the in-place unflattening raised half way
    elif good and mode == "tensor":
        _reuse(ctx, op, desc, r, exp)
    if good and mode != "below" and now is not None:
        _updated(ctx, op, desc, r, now, x, c0)
    return good and bool(c0), len(c0)


def _again(ctx, op, desc, r, exp, d, how):
    """Any number of levels / every result is itself a tensor: the flattened tensor `r` (content `exp`, a list rank id at
    depth d) is the operand of a second flattening (tuple / pair) or merge (absolute, sum) of its combined rank with the
    rank below.  The second result has to hold the image of `exp`; `r` itself is afterwards unflattened by the caller as
    if nothing had happened (the round trip restores content and rank ids of the original)."""
    mon, default = ctx.mon, ctx.default
    stored = spec_of(_root(r))
    tags = _skip_tag(stored, d, default)
    op2 = op + ":result-transformed-again"
    groups = _img_flatten(exp, d, 1, "absolute" if how == "merge" else how, None)
    if how == "merge":
        exp2 = {}
        for q, g in groups.items():
            v = g[0][1] if len(g) == 1 else sum(e[1] for e in g)
            if v != default:
                exp2[q] = v
        desc2 = f"Tensor.mergeRanks(depth={d}, levels=1, coord_style='absolute') of the result of {desc}"
        ok, r2 = _call(ctx, op2, desc2, r.mergeRanks, depth=d, levels=1, coord_style="absolute", tags=tags)
    else:
        if any(len(g) > 1 for g in groups.values()):
            raise RuntimeError("harness: flatten image is not injective")
        exp2 = {q: g[0][1] for q, g in groups.items()}
        desc2 = f"Tensor.flattenRanks(depth={d}, levels=1, coord_style={how!r}) of the result of {desc}"
        ok, r2 = _call(ctx, op2, desc2, r.flattenRanks, depth=d, levels=1, coord_style=how, tags=tags)
    mon.count("flattened_results_transformed_again")
    mon.count(f"again:{how}")
    if ok:
        _judge(ctx, op2, desc2, r2, exp2, style=how, tags=tags)


# -- merge -------------------------------------------------------------------------------------
def _hier_merge(c0, d, l, style, fn, default):
    """Level-by-level merge in which an intermediate result equal to the default is treated as absent
    (a recognised wrong model, used only to classify a disagreement)."""
    cur = dict(c0)
    for step in range(l):
        a = d + l - 1 - step
        groups = {}
        for pt, v in cur.items():
            c = pt[a + 1] if style == "absolute" else pt[a] + pt[a + 1]
            groups.setdefault(pt[:a] + (c,) + pt[a + 2:], []).append(v)
        cur = {}
        for q, vs in groups.items():
            v = vs[0] if len(vs) == 1 else _reduce(fn, vs)
            if v != default:
                cur[q] = v
    return cur


def _run_merge(ctx):
    case, mon, default = ctx.case, ctx.mon, ctx.default
    d, l, style, mode, D, fn = case["d"], case["l"], case["style"], case["mode"], case["depth"], case["fn"]
    x, c0, stored = _operand(ctx, mode)
    if style == "relative":
        # guard (decided: observed, not claimed - DESIGN 12.3): a `relative` merge of independent ranks declares the shape of the upper rank
        # (documented: [S0 .. SN] -> S0) although the summed coordinates reach S0 + .. + SN - N - 1
        ctx.no_containment = "relative-merge-of-independent-ranks"
    groups = _img_flatten(c0, d, l, style, None)
    exp = {}
    ncoll = 0
    for q, g in groups.items():
        if len(g) == 1:
            v = g[0][1]
        else:
            ncoll += 1
            v = _reduce(fn, [e[1] for e in g])
        if v != default:
            exp[q] = v
    alt = ("intermediate-result-equal-to-default-dropped", _hier_merge(c0, d, l, style, fn, default)) if l > 1 else None
    fname = fn or "default(sum)"
    tags = _skip_tag(stored, d, default)
    rtags = tags + _inner_tag(stored, d, l)
    # fan-in: how many elements of the merged ranks (points, or whole sub-fibers when the merge ends above the leaf rank)
    # meet at one merged coordinate
    fan = {}
    for pts in groups.values():
        for pt, _ in pts:
            fan.setdefault(pt[:d] + (_combine(pt[d:d + l + 1], style, None),), set()).add(pt[d:d + l + 1])
    fanin = max((len(srcs) for srcs in fan.values()), default=0)
    fclass = "1" if fanin <= 1 else "2-3" if fanin <= 3 else "4-9" if fanin <= 9 else "10-26" if fanin <= 26 else "27+"
    if D - 1 - (d + l) >= 2 and fanin >= 3:
        rtags = rtags + (TAG_DEEP3,)
    if mode == "tensor":
        op = "Tensor.mergeRanks"
        desc = f"Tensor.mergeRanks(depth={d}, levels={l}, coord_style={style!r}, merge_fn={fname})"
        ok, r = _call(ctx, op, desc, x.mergeRanks, depth=d, levels=l, coord_style=style, merge_fn=_merge_fn(fn), tags=rtags)
    else:
        op = "Fiber.mergeRanks"
        desc = f"Fiber.mergeRanks(depth={d}, levels={l}, style={style!r}, merge_fn={fname})"
        ok, r = _call(ctx, op, desc, x.mergeRanks, depth=d, levels=l, style=style, merge_fn=_merge_fn(fn), tags=rtags)
    if not ok:
        return False, len(c0)
    ctags = _inner_tag(stored, d, l) if default != 0 else ()
    # recognised class (known finding): a merge of more than two ranks that ends above the leaf rank, leaf default != 0.  The fibers
    # the library builds for one level carry default 0, so a value 0 (stored, or the result of merging one level) is taken as
    # absent by the union of the next level.  Only disagreements confined to points whose colliding values hold a 0 or can
    # cancel to 0 get the class key; anything else in this class keeps the general key.
    def _zero_explains(missing, extra, wrong):
        if extra:
            return False
        for q in list(missing) + list(wrong):
            vals = [e[1] for e in groups.get(q, [])]
            if not (0 in vals or (fn in (None, "sum") and any(v > 0 for v in vals) and any(v < 0 for v in vals))):
                return False
        return True
    alt_pred = (("multi-level-above-leaf+nonzero-default+zero-taken-as-absent", _zero_explains)
                if default != 0 and l > 1 and d + l < D - 1 else None)
    if alt_pred:
        mon.count("multi_level_merges_above_leaf_nonzero_default")
    good = _judge(ctx, op, desc, r, exp, style=style, tags=tags, alt=alt, ctags=ctags, alt_pred=alt_pred)
    mon.count("collisions_merged", ncoll)
    if good:
        mon.count(f"merge_fanin:{fclass}")
        if d + l < D - 1:
            mon.count(f"fiber_merge_fanin:{fclass}")
            if fanin >= 2 and ncoll < sum(len(g) > 0 for g in groups.values()):
                # sub-fibers collide and some lower coordinate is present in only one of them: nothing but the points that
                # are there may reach merge_fn
                if default != 0:
                    mon.count("fiber_merge_partial_presence:nonzero_default")
                if fn not in (None, "sum"):
                    mon.count("fiber_merge_partial_presence:fn_without_neutral_default")
    mon.state(("merge", D, d, l, style, fname, mode, sorted(map(str, exp.items()))[:6]))
    if good and mode == "tensor":
        _reuse(ctx, op, desc, r, exp)
    if good:
        _updated(ctx, op, desc, r, exp, x, c0)
    return good and ncoll > 0, len(c0)


# -- split then flatten ------------------------------------------------------------------------
def _run_splitflat(ctx):
    case, mon, default = ctx.case, ctx.mon, ctx.default
    d, sk, arg, rel, mode = case["d"], case["split"], case["arg"], case["rel"], case["mode"]
    x, c0, stored = _operand(ctx, mode)
    if _skip_tag(stored, d, default):
        mon.count("split_guard_skipped")        # the split itself leaves such a sub-tree unsplit (C08's)
        return False, 0
    meth = SPLIT_METH[sk]
    try:
        s = getattr(x, meth)(arg, depth=d, relativeCoords=rel)
    except BaseException:       # noqa  splitting itself is C08's
        mon.count("split_raised_skipped")
        return False, 0
    if WF(s) or (isinstance(s, Tensor) and RC(s)):
        mon.count("split_not_wf_skipped")
        return False, 0
    if len(content(_root(s), default)) != len(c0):
        mon.count("split_lossy_skipped")        # e.g. a point outside a stale estimated shape is dropped by the split (C08/C14)
        return False, 0
    style = "relative" if rel else "absolute"
    who = "Tensor" if mode == "tensor" else "Fiber"
    op = f"{who}.flattenRanks:after-split"
    desc = f"{who}.flattenRanks(depth={d}, levels=1, {style!r}) of the result of {meth}({arg}, depth={d}, relativeCoords={rel})"
    tags = _skip_tag(spec_of(_root(s)), d, default)
    if mode == "tensor":
        ok, r = _call(ctx, op, desc, s.flattenRanks, depth=d, levels=1, coord_style=style, tags=tags)
    else:
        ok, r = _call(ctx, op, desc, s.flattenRanks, depth=d, levels=1, style=style, tags=tags)
    if not ok:
        return False, len(c0)
    mon.count("roundtrips_checked")
    good = _judge(ctx, op, desc, r, c0, "roundtrip", style=style, tags=tags)
    nparts = len({pt[:d + 1] for pt in content(_root(s), default)})
    mon.state(("splitflat", case["depth"], d, sk, rel, mode, nparts, len(c0)))
    return good, len(c0)


# -- updateCoords / updatePayloads ---------------------------------------------------------------
def _run_updcoords(ctx):
    case, mon = ctx.case, ctx.mon
    d, fn, mode = case["d"], case["fn"], case["mode"]
    g = _cmap(fn)

    def func(i, c, p):
        return g(c)
    kw = {}
    if case.get("new_shape"):
        kw["new_shape"] = case["new_shape"]
    x, c0, stored = _operand(ctx, mode, need_shape=True)
    if not kw:
        # without new_shape the rank keeps its shape: that the new coordinates fit it is the caller's claim, and none of
        # the generated coordinate functions maps range(shape) into itself
        ctx.no_containment = "updateCoords-without-new_shape"
    exp = {pt[:d] + (g(pt[d]),) + pt[d + 1:]: v for pt, v in c0.items()}
    if mode == "tensor":
        op, desc = "Tensor.updateCoords", f"Tensor.updateCoords({fn}, depth={d}, {kw})"
        ok, r = _call(ctx, op, desc, x.updateCoords, func, depth=d, **kw)
    else:
        op, desc = "Fiber.updateCoords", f"Fiber.updateCoords({fn}, depth={d}, {kw})"
        ok, _ = _call(ctx, op, desc, x.updateCoords, func, depth=d, **kw)
        r = x
    if not ok:
        return False, len(c0)
    good = _judge(ctx, op, desc, r, exp)
    mon.state(("updcoords", case["depth"], d, fn, mode, sorted(map(str, exp))[:6]))
    return good and set(exp) != set(c0), len(c0)


def _run_updpay(ctx):
    case, mon, default = ctx.case, ctx.mon, ctx.default
    fn, mode, D = case["fn"], case["mode"], case["depth"]
    g = _pmap(fn, default)
    box = fn.endswith("box")

    def func(i, c, p):
        v = g(c, unbox(p))
        return Payload(v) if box else v
    x, c0, stored = _operand(ctx, mode)
    exp = {pt: g(pt[-1], v) for pt, v in c0.items()}
    if mode == "tensor":
        op, desc = "Tensor.updatePayloads", f"Tensor.updatePayloads({fn}, depth={D - 1})"
        ok, r = _call(ctx, op, desc, x.updatePayloads, func, depth=D - 1)
    else:
        op, desc = "Fiber.updatePayloads", f"Fiber.updatePayloads({fn}, depth={D - 1})"
        ok, _ = _call(ctx, op, desc, x.updatePayloads, func, depth=D - 1)
        r = x
    if not ok:
        return False, len(c0)
    good = _judge(ctx, op, desc, r, exp)
    mon.state(("updpay", D, fn, mode, sorted(map(str, exp.items()))[:6]))
    return good, len(c0)
